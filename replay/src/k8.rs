//! K8 witness search: rendered line/column of real parse errors against O-pos (line_col).
use std::panic::catch_unwind;

include!("../../kani/spec/oracles.rs");

fn battery() -> Vec<String> {
    let mut v = Vec::new();
    let pres = ["", "a", "\u{e9}", "\u{e9}\u{e9}", "a\u{e9}", "\u{65e5}\u{672c}", "\u{1F600}", "\u{e9}\u{1F600}x"];
    let bads = ["\u{20ac}", "\u{e9}", "\u{1F600}", "?", "\u{65e5}"];
    for pre in pres {
        for bad in bads {
            v.push(format!("\"{pre}\" = {bad}"));
            v.push(format!("\"{pre}\" = {bad}\n"));
            v.push(format!("# {pre}\n\"{pre}\" = {bad}\n"));
            v.push(format!("k = 1 # {pre}\nx{pre} = {bad}"));
            v.push(format!("k = \"{pre}\"\r\nz = {bad}\r\n"));
        }
        // errors at end of input, with and without a final newline
        v.push(format!("x = \"{pre}"));
        v.push(format!("x = '{pre}"));
        v.push(format!("x = \"{pre}\n"));
        v.push(format!("[{pre}"));
        v.push(format!("x = [\"{pre}\","));
        v.push(format!("{pre}"));
        v.push(format!("\"{pre}\""));
    }
    v
}

fn check(doc: &str) -> Option<String> {
    let d = doc.to_owned();
    let r = catch_unwind(move || match d.parse::<toml_edit::DocumentMut>() {
        Ok(_) => None,
        Err(e) => Some((e.span(), e.to_string(), e.message().to_owned())),
    });
    let (span, rendered, message) = match r {
        Err(_) => return Some("parsing or rendering the error panicked".to_owned()),
        Ok(None) => return None,
        Ok(Some(x)) => x,
    };
    if message.is_empty() {
        return Some("empty error message".to_owned());
    }
    let span = span?;
    if span.start > doc.len() || span.end > doc.len() + 1 || span.start > span.end {
        return Some(format!("span {:?} outside the document of {} bytes", span, doc.len()));
    }
    if span.start < doc.len() && !doc.is_char_boundary(span.start) {
        return Some(format!("span start {} not on a character boundary", span.start));
    }
    let (l, c) = o_pos::line_col(doc.as_bytes(), span.start);
    let want = format!("line {}, column {}", l + 1, c + 1);
    if !rendered.contains(&want) {
        let first = rendered.lines().next().unwrap_or("").to_owned();
        return Some(format!("rendered `{}` but span start {} is {}", first, span.start, want));
    }
    // the caret line: gutter, `|`, column + 1 blanks, then the first `^`
    let lines: Vec<&str> = rendered.split('\n').collect();
    let gutter = (l + 1).to_string().len();
    match lines.get(3) {
        Some(caret) => {
            let want_caret = format!("{}|{}^", " ".repeat(gutter + 1), " ".repeat(c + 1));
            if !caret.starts_with(&want_caret) || caret[want_caret.len()..].chars().any(|ch| ch != '^') {
                return Some(format!("caret line `{}` does not put the first caret under column {}", caret, c + 1));
            }
        }
        None => return Some("rendering has no caret line".to_owned()),
    }
    None
}

pub fn witness() -> i32 {
    std::panic::set_hook(Box::new(|_| {}));
    let mut tried = 0;
    for doc in battery() {
        tried += 1;
        if let Some(r) = check(&doc) {
            println!(
                "WITNESS {{\"unit\":\"K8\",\"arg\":\"{}\",\"input\":\"{}\",\"reason\":\"{}\"}}",
                crate::hex(doc.as_bytes()), crate::json_escape(&doc), crate::json_escape(&r)
            );
            println!("tried {tried}");
            return 1;
        }
    }
    println!("NO-WITNESS tried {tried}");
    0
}

pub fn replay(arg_hex: &str) -> i32 {
    std::panic::set_hook(Box::new(|_| {}));
    let doc = String::from_utf8(crate::unhex(arg_hex)).unwrap_or_default();
    match check(&doc) {
        Some(r) => {
            println!("REPRODUCED {:?}: {}", doc, r);
            1
        }
        None => {
            println!("NOT-REPRODUCED {:?}: error location is rendered per O-pos on the current tree", doc);
            0
        }
    }
}
