//! Unit V1 against the real `toml_write` + `toml_edit`.
use std::panic::catch_unwind;
use toml_write::{TomlKeyBuilder, TomlStringBuilder, WriteTomlKey, WriteTomlValue};

include!("../../specs/shared/battery_v1.rs");

pub const VALUE_STYLES: [&str; 7] =
    ["default", "literal", "ml_literal", "basic_pretty", "ml_basic_pretty", "basic", "ml_basic"];
pub const KEY_STYLES: [&str; 5] = ["default", "unquoted", "literal", "basic_pretty", "basic"];

/// token of value style k for s; Ok(None) = style refused; Err = panic
pub fn value_token(s: &str, k: usize) -> Result<Option<String>, String> {
    let s = s.to_owned();
    catch_unwind(move || {
        let b = TomlStringBuilder::new(&s);
        let t = match k {
            0 => Some(b.as_default()),
            1 => b.as_literal(),
            2 => b.as_ml_literal(),
            3 => b.as_basic_pretty(),
            4 => b.as_ml_basic_pretty(),
            5 => Some(b.as_basic()),
            6 => Some(b.as_ml_basic()),
            _ => unreachable!(),
        };
        t.map(|t| {
            let mut out = String::new();
            t.write_toml_value(&mut out).unwrap();
            out
        })
    })
    .map_err(panic_msg)
}

pub fn key_token(s: &str, k: usize) -> Result<Option<String>, String> {
    let s = s.to_owned();
    catch_unwind(move || {
        let b = TomlKeyBuilder::new(&s);
        let t = match k {
            0 => Some(b.as_default()),
            1 => b.as_unquoted(),
            2 => b.as_literal(),
            3 => b.as_basic_pretty(),
            4 => Some(b.as_basic()),
            _ => unreachable!(),
        };
        t.map(|t| {
            let mut out = String::new();
            t.write_toml_key(&mut out).unwrap();
            out
        })
    })
    .map_err(panic_msg)
}

fn panic_msg(e: Box<dyn std::any::Any + Send>) -> String {
    if let Some(s) = e.downcast_ref::<&str>() {
        (*s).to_owned()
    } else if let Some(s) = e.downcast_ref::<String>() {
        s.clone()
    } else {
        "panic".to_owned()
    }
}

/// same digest lines as the `main` of the Verus-compiled extraction
pub fn fidelity(max_len: usize) -> i32 {
    std::panic::set_hook(Box::new(|_| {}));
    let battery = v1_battery(max_len);
    let mut vh = [0xcbf29ce484222325u64; 7];
    let mut vn = [0usize; 7];
    let mut kh = [0xcbf29ce484222325u64; 5];
    let mut kn = [0usize; 5];
    for s in &battery {
        for k in 0..7 {
            match value_token(s, k) {
                Ok(Some(t)) => {
                    vn[k] += 1;
                    fnv1a(&mut vh[k], t.as_bytes());
                }
                Ok(None) => fnv1a(&mut vh[k], b"<none>"),
                Err(_) => fnv1a(&mut vh[k], b"<panic>"),
            }
        }
        for k in 0..5 {
            match key_token(s, k) {
                Ok(Some(t)) => {
                    kn[k] += 1;
                    fnv1a(&mut kh[k], t.as_bytes());
                }
                Ok(None) => fnv1a(&mut kh[k], b"<none>"),
                Err(_) => fnv1a(&mut kh[k], b"<panic>"),
            }
        }
    }
    println!("battery {}", battery.len());
    for k in 0..7 {
        println!("value {} offered {} digest {:016x}", VALUE_STYLES[k], vn[k], vh[k]);
    }
    for k in 0..5 {
        println!("key {} offered {} digest {:016x}", KEY_STYLES[k], kn[k], kh[k]);
    }
    0
}

/// C10 judged by the real parser: Err(reason) when the token does not parse back to s
pub fn judge_value(s: &str, tok: &str) -> Result<(), String> {
    let tok2 = tok.to_owned();
    let alone = catch_unwind(move || tok2.parse::<toml_edit::Value>().map(|v| v.as_str().map(str::to_owned)))
        .map_err(|e| format!("parser panicked on the token alone: {}", panic_msg(e)))?;
    match alone {
        Ok(Some(d)) if d == s => {}
        Ok(Some(d)) => return Err(format!("token alone decodes to {:?}", d)),
        Ok(None) => return Err("token alone parses to a non-string".to_owned()),
        Err(e) => return Err(format!("token alone rejected: {}", e.to_string().replace('\n', " | "))),
    }
    let doc = format!("k = {tok}\nz = 1\n");
    let r = catch_unwind(move || {
        doc.parse::<toml_edit::DocumentMut>().map(|d| (d.get("k").and_then(|v| v.as_str()).map(str::to_owned), d.get("z").is_some()))
    })
    .map_err(|e| format!("parser panicked on the document: {}", panic_msg(e)))?;
    match r {
        Ok((Some(d), true)) if d == s => Ok(()),
        Ok((d, z)) => Err(format!("inside a document decodes to {:?} (following key present: {})", d, z)),
        Err(e) => Err(format!("document rejected: {}", e.to_string().replace('\n', " | "))),
    }
}

pub fn judge_key(s: &str, tok: &str) -> Result<(), String> {
    let doc = format!("{tok} = 1\nzz = 2\n");
    let s2 = s.to_owned();
    let r = catch_unwind(move || {
        doc.parse::<toml_edit::DocumentMut>().map(|d| {
            let keys: Vec<String> = d.iter().map(|(k, _)| k.to_owned()).collect();
            keys
        })
    })
    .map_err(|e| format!("parser panicked on the document: {}", panic_msg(e)))?;
    match r {
        Ok(keys) if keys.len() == 2 && keys[0] == s2 && keys[1] == "zz" => {}
        Ok(keys) => return Err(format!("as a key decodes to {:?}", keys)),
        Err(e) => return Err(format!("key rejected: {}", e.to_string().replace('\n', " | "))),
    }
    // dotted position
    let doc = format!("a.{tok}.b = 1\n");
    let r = catch_unwind(move || {
        doc.parse::<toml_edit::DocumentMut>().map(|d| {
            d.get("a").and_then(|a| a.as_table_like()).map(|t| t.iter().map(|(k, _)| k.to_owned()).collect::<Vec<_>>())
        })
    })
    .map_err(|e| format!("parser panicked on the dotted document: {}", panic_msg(e)))?;
    match r {
        Ok(Some(keys)) if keys.len() == 1 && keys[0] == s => Ok(()),
        Ok(keys) => Err(format!("in dotted position decodes to {:?}", keys)),
        Err(e) => Err(format!("dotted key rejected: {}", e.to_string().replace('\n', " | "))),
    }
}

fn check_one(s: &str) -> Option<String> {
    // a default must exist
    for k in 0..7 {
        match value_token(s, k) {
            Err(p) => return Some(witness_json(s, "value", VALUE_STYLES[k], None, &format!("panic: {p}"))),
            Ok(None) => {
                if k == 0 || k == 5 || k == 6 {
                    return Some(witness_json(s, "value", VALUE_STYLES[k], None, "no token"));
                }
            }
            Ok(Some(t)) => {
                if let Err(r) = judge_value(s, &t) {
                    return Some(witness_json(s, "value", VALUE_STYLES[k], Some(&t), &r));
                }
            }
        }
    }
    for k in 0..5 {
        match key_token(s, k) {
            Err(p) => return Some(witness_json(s, "key", KEY_STYLES[k], None, &format!("panic: {p}"))),
            Ok(None) => {}
            Ok(Some(t)) => {
                if let Err(r) = judge_key(s, &t) {
                    return Some(witness_json(s, "key", KEY_STYLES[k], Some(&t), &r));
                }
            }
        }
    }
    None
}

fn witness_json(s: &str, pos: &str, style: &str, tok: Option<&str>, reason: &str) -> String {
    format!(
        "{{\"unit\":\"V1\",\"input_hex\":\"{}\",\"input\":\"{}\",\"position\":\"{}\",\"style\":\"{}\",\"token\":{},\"reason\":\"{}\"}}",
        crate::hex(s.as_bytes()),
        crate::json_escape(s),
        pos,
        style,
        match tok {
            Some(t) => format!("\"{}\"", crate::json_escape(t)),
            None => "null".to_owned(),
        },
        crate::json_escape(reason)
    )
}

/// search the battery for a string on which the real crates violate C10
pub fn witness(max_len: usize) -> i32 {
    std::panic::set_hook(Box::new(|_| {}));
    let battery = v1_battery(max_len);
    let mut tried = 0usize;
    for s in &battery {
        tried += 1;
        if let Some(w) = check_one(s) {
            println!("WITNESS {w}");
            println!("tried {tried}");
            return 1;
        }
    }
    println!("NO-WITNESS tried {tried}");
    0
}

/// replay one witness: argument is the hex of the input string
pub fn replay(input_hex: &str) -> i32 {
    std::panic::set_hook(Box::new(|_| {}));
    let bytes = crate::unhex(input_hex);
    let s = match String::from_utf8(bytes) {
        Ok(s) => s,
        Err(_) => {
            println!("REPLAY-ERROR input is not UTF-8");
            return 2;
        }
    };
    match check_one(&s) {
        Some(w) => {
            println!("REPRODUCED {w}");
            1
        }
        None => {
            println!("NOT-REPRODUCED input {:?} satisfies C10 on the current tree", s);
            0
        }
    }
}
