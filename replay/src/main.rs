//! Replays witnesses and runs fidelity / witness-search batteries against the REAL crates
//! in /repo (path dependencies).  Built with debug assertions and overflow checks.
mod k3;
mod c05;
mod k10;
mod k11f;
mod k7;
mod k8;
mod v1;
mod v10;

fn main() {
    let args: Vec<String> = std::env::args().collect();
    let cmd = args.get(1).map(String::as_str).unwrap_or("");
    let code = match cmd {
        "fidelity-v1" => v1::fidelity(args.get(2).and_then(|s| s.parse().ok()).unwrap_or(3)),
        "witness-v1" => v1::witness(args.get(2).and_then(|s| s.parse().ok()).unwrap_or(4)),
        "replay-v1" => v1::replay(&args[2]),
        "witness-k3" => k3::witness(),
        "fidelity-v5" => k3::fidelity(),
        "fidelity-v6" => k3::fidelity_printer(),
        "fidelity-v10" => v10::fidelity(),
        "fidelity-v10-cases" => v10::cases(),
        "replay-k3" => k3::replay(&args[2]),
        "witness-k10" => k10::witness(),
        "replay-k10" => k10::replay(&args[2]),
        "witness-c05" => c05::witness(),
        "replay-c05" => c05::replay(&args[2]),
        "child-c05" => c05::child(&args[2]),
        "witness-k11f" => k11f::witness(),
        "replay-k11f" => k11f::replay(&args[2]),
        "witness-k7" => k7::witness(),
        "witness-k8" => k8::witness(),
        "replay-k8" => k8::replay(&args[2]),
        "replay-k7" => k7::replay(&args[2]),
        _ => {
            eprintln!("usage: verif_replay <fidelity-v1|witness-v1|replay-v1> ..");
            2
        }
    };
    std::process::exit(code);
}

pub fn hex(b: &[u8]) -> String {
    b.iter().map(|x| format!("{x:02x}")).collect()
}

pub fn unhex(s: &str) -> Vec<u8> {
    (0..s.len() / 2).map(|i| u8::from_str_radix(&s[2 * i..2 * i + 2], 16).unwrap()).collect()
}

pub fn json_escape(s: &str) -> String {
    let mut o = String::new();
    for c in s.chars() {
        match c {
            '"' => o.push_str("\\\""),
            '\\' => o.push_str("\\\\"),
            '\n' => o.push_str("\\n"),
            '\r' => o.push_str("\\r"),
            '\t' => o.push_str("\\t"),
            c if (c as u32) < 0x20 || c as u32 == 0x7f => o.push_str(&format!("\\u{:04x}", c as u32)),
            c => o.push(c),
        }
    }
    o
}
