//! Fidelity battery for unit V10 (Display for TomlError): real parse errors of a family of
//! invalid documents.  `fidelity-v10-cases` prints one line per error -- document, span and
//! message in hex -- which the EXTRACTED renderer (compiled by `verus --compile`) reads back;
//! `fidelity-v10` prints the digest of the REAL renderings of the same errors.
use crate::hex;

fn fnv1a(h: &mut u64, bytes: &[u8]) {
    for b in bytes {
        *h ^= *b as u64;
        *h = h.wrapping_mul(0x100000001b3);
    }
    *h ^= 0xff;
    *h = h.wrapping_mul(0x100000001b3);
}

fn docs() -> Vec<String> {
    let bases = [
        "a = 1\nb = \"h\u{e9}llo \u{1F600} w\u{4e16}rld\" # c\u{f6}mment\n[t\u{e9}.\"k \u{1F600}\"]\nc = [1, 2,\n  3]\nd = {x = 1979-05-27T07:32:00Z}\n",
        "\u{e9}\u{e9} = '''\nmulti\n\u{1F600}line'''\r\nz = 0x1F\n",
        "k = \"\u{4e16}\u{754c}\"",
    ];
    let mut out = Vec::new();
    for base in bases {
        let idx: Vec<usize> = base.char_indices().map(|(i, _)| i).chain(std::iter::once(base.len())).collect();
        for &i in &idx {
            // truncation at every character boundary
            out.push(base[..i].to_owned());
            // a character no production accepts, a stray quote and a stray bracket at every boundary
            for ins in ["\u{0}", "\"", "]", "\u{1F600}", "\n=", "\u{e9}\u{e9}\u{e9} \u{e9}"] {
                let mut s = base[..i].to_owned();
                s.push_str(ins);
                s.push_str(&base[i..]);
                out.push(s);
            }
        }
    }
    out.push(String::new());
    out.push("\n\n\n=".to_owned());
    out.push("a = 1\na = 2".to_owned());
    out.push("a = 99999999999999999999".to_owned());
    out.push("[a]\n[a]\n".to_owned());
    out
}

fn errors() -> Vec<(String, toml_edit::TomlError)> {
    let mut out = Vec::new();
    for d in docs() {
        if let Err(e) = d.parse::<toml_edit::ImDocument<String>>() {
            out.push((d, e));
        }
    }
    out
}

pub fn cases() -> i32 {
    for (d, e) in errors() {
        let span = e.span().expect("parse errors carry a span");
        println!("{} {} {} {}", hex(d.as_bytes()), span.start, span.end, hex(e.message().as_bytes()));
    }
    0
}

pub fn fidelity() -> i32 {
    let mut h = 0xcbf29ce484222325u64;
    let errs = errors();
    for (_, e) in &errs {
        fnv1a(&mut h, e.to_string().as_bytes());
    }
    println!("values {} digest {:016x}", errs.len(), h);
    0
}
