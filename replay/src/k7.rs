//! K7 witness search: decimal float literals whose magnitude overflows f64 must be rejected
//! by the real document parser, with either sign; finite ones must be accepted.
use std::panic::catch_unwind;

fn overflow_literals() -> Vec<String> {
    let mut v = Vec::new();
    for sign in ["", "+", "-"] {
        for body in ["1e309", "1e999", "9e99999", "1.8e308", "1.7976931348623159e308", "2e308", "1_0e400",
                     "123456789e400", "0.1e310", "1E309", "1e+309", "17976931348623158e292"] {
            v.push(format!("{sign}{body}"));
        }
    }
    v
}

fn finite_literals() -> Vec<String> {
    let mut v = Vec::new();
    for sign in ["", "+", "-"] {
        for body in ["1e308", "1.7976931348623157e308", "0.0", "1e-400", "5e-324", "3.14", "1e0", "6.626e-34"] {
            v.push(format!("{sign}{body}"));
        }
    }
    v
}

/// Ok(Some(f)) parsed to float f; Ok(None) rejected; Err panic
fn parse_float(lit: &str) -> Result<Option<f64>, String> {
    let doc = format!("x = {lit}\n");
    catch_unwind(move || doc.parse::<toml_edit::DocumentMut>().ok().and_then(|d| d.get("x").and_then(|v| v.as_float())))
        .map_err(|_| "panic".to_owned())
}

fn check(lit: &str, overflow: bool) -> Option<String> {
    match parse_float(lit) {
        Err(p) => Some(format!("parser panicked: {p}")),
        Ok(Some(f)) if overflow => Some(format!("overflowing literal accepted as {f}")),
        Ok(Some(f)) if f.is_infinite() => Some(format!("finite literal parsed as {f}")),
        Ok(None) if !overflow => Some("finite literal rejected".to_owned()),
        _ => None,
    }
}

fn classify(lit: &str) -> bool {
    // independent judgement: magnitude overflows iff Rust's own f64 parser yields an infinity
    lit.replace('_', "").parse::<f64>().map(|f| f.is_infinite()).unwrap_or(false)
}

pub fn witness() -> i32 {
    std::panic::set_hook(Box::new(|_| {}));
    let mut tried = 0;
    for set in [overflow_literals(), finite_literals()] {
        for lit in set {
            tried += 1;
            let overflow = classify(&lit);
            if let Some(r) = check(&lit, overflow) {
                println!(
                    "WITNESS {{\"unit\":\"K7\",\"arg\":\"{}\",\"input\":\"x = {}\",\"reason\":\"{}\"}}",
                    crate::hex(lit.as_bytes()), crate::json_escape(&lit), crate::json_escape(&r)
                );
                return 1;
            }
        }
    }
    println!("NO-WITNESS tried {tried}");
    0
}

pub fn replay(arg_hex: &str) -> i32 {
    std::panic::set_hook(Box::new(|_| {}));
    let lit = String::from_utf8(crate::unhex(arg_hex)).unwrap_or_default();
    let overflow = classify(&lit);
    match check(&lit, overflow) {
        Some(r) => {
            println!("REPRODUCED x = {lit}: {r}");
            1
        }
        None => {
            println!("NOT-REPRODUCED x = {lit} is handled correctly on the current tree");
            0
        }
    }
}
