//! C05 witness search: nesting depth of the decoded structure when constructs are combined.
//! The recursion counter bounds nested arrays / inline tables, and a separate check bounds the
//! length of one dotted key; a dotted key materialises as one nested table per segment without
//! consuming the counter, so inline tables keyed by long dotted keys multiply the two limits.
//! The depth is measured iteratively (explicit stack); the document is leaked, never dropped,
//! printed or cloned, since those recurse once per level.

/// `x = {a.a…(k segments) = {a.a… = … 1 }}` with m nested inline tables
fn doc(k: usize, m: usize) -> String {
    let key = vec!["a"; k].join(".");
    let mut s = String::from("x = ");
    for _ in 0..m {
        s.push_str("{ ");
        s.push_str(&key);
        s.push_str(" = ");
    }
    s.push('1');
    for _ in 0..m {
        s.push_str(" }");
    }
    s.push('\n');
    s
}

fn depth_of(root: &toml_edit::Item) -> usize {
    let mut max = 0;
    let mut stack: Vec<(&toml_edit::Item, usize)> = vec![(root, 0)];
    while let Some((item, d)) = stack.pop() {
        if d > max {
            max = d;
        }
        match item {
            toml_edit::Item::Table(t) => {
                for (_, v) in t.iter() {
                    stack.push((v, d + 1));
                }
            }
            toml_edit::Item::ArrayOfTables(a) => {
                for t in a.iter() {
                    for (_, v) in t.iter() {
                        stack.push((v, d + 2));
                    }
                }
            }
            toml_edit::Item::Value(v) => value_depth(v, d, &mut max),
            toml_edit::Item::None => {}
        }
    }
    max
}

fn value_depth(root: &toml_edit::Value, base: usize, max: &mut usize) {
    let mut stack: Vec<(&toml_edit::Value, usize)> = vec![(root, base)];
    while let Some((v, d)) = stack.pop() {
        if d > *max {
            *max = d;
        }
        match v {
            toml_edit::Value::Array(a) => {
                for e in a.iter() {
                    stack.push((e, d + 1));
                }
            }
            toml_edit::Value::InlineTable(t) => {
                for (_, e) in t.iter() {
                    stack.push((e, d + 1));
                }
            }
            _ => {}
        }
    }
}

/// Some(reason) if the document `k x m` is accepted with a nesting depth above `bound`
fn check(k: usize, m: usize, bound: usize) -> Option<String> {
    let text = doc(k, m);
    let parsed = text.parse::<toml_edit::ImDocument<String>>();
    match parsed {
        Err(_) => None,
        Ok(d) => {
            let depth = depth_of(d.as_item());
            // never drop: Drop recurses once per level
            std::mem::forget(d);
            if depth > bound {
                let mut r = format!(
                    "{m} nested inline tables, each keyed by a {k}-segment dotted key ({} bytes): accepted, decoded nesting depth {depth} > {bound}",
                    text.len()
                );
                if let Some(o) = consumers_overflow(k, m) {
                    r.push_str("; ");
                    r.push_str(&o);
                }
                Some(r)
            } else {
                None
            }
        }
    }
}

const BOUND: usize = 128;

/// child process: parse, then print, clone and drop the document on a 2 MiB thread (the default
/// stack of a spawned thread); a stack overflow kills the child with a signal
pub fn child(arg: &str) -> i32 {
    let (k, m) = parse_arg(arg);
    let text = doc(k, m);
    let h = std::thread::Builder::new().stack_size(2 * 1024 * 1024).spawn(move || {
        match text.parse::<toml_edit::DocumentMut>() {
            Err(_) => 0usize,
            Ok(d) => {
                let printed = d.to_string();
                let c = d.clone();
                drop(c);
                drop(d);
                printed.len()
            }
        }
    });
    match h.map(|h| h.join()) {
        Ok(Ok(n)) => {
            println!("CHILD-OK {n}");
            0
        }
        _ => 3,
    }
}

fn parse_arg(arg: &str) -> (usize, usize) {
    match arg.split_once('x') {
        Some((a, b)) => (a.parse().unwrap_or(79), b.parse().unwrap_or(10)),
        None => (79, 10),
    }
}

/// runs `child` in a subprocess; Some(description) if it did not finish normally
fn consumers_overflow(k: usize, m: usize) -> Option<String> {
    let exe = std::env::current_exe().ok()?;
    let out = std::process::Command::new(exe).arg("child-c05").arg(format!("{k}x{m}")).output().ok()?;
    if out.status.success() {
        None
    } else {
        Some(format!("parse + print + clone + drop on a 2 MiB thread did not complete ({})", out.status))
    }
}

pub fn witness() -> i32 {
    let mut tried = 0;
    for (k, m) in [(79usize, 40usize), (79, 10), (79, 2), (40, 40)] {
        tried += 1;
        if let Some(r) = check(k, m, BOUND) {
            println!("WITNESS {{\"unit\":\"V3m\",\"arg\":\"{k}x{m}\",\"input\":\"x = {{ a.a…({k}) = … }} nested {m} times\",\"reason\":\"{}\"}}", crate::json_escape(&r));
            return 1;
        }
    }
    println!("NO-WITNESS tried {tried}");
    0
}

pub fn replay(arg: &str) -> i32 {
    let (k, m) = parse_arg(arg);
    match check(k, m, BOUND) {
        Some(r) => {
            println!("REPRODUCED {arg}: {r}");
            1
        }
        None => {
            println!("NOT-REPRODUCED {arg}: rejected, or decoded depth within {BOUND}, on the current tree");
            0
        }
    }
}
