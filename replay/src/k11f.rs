//! K11f witness search: the float writers of toml_write (f64 and f32) on a battery of bit
//! patterns: the literal must be a TOML float that parses back (real document parser) to the
//! same value, bit for bit (f32: after narrowing the parsed f64 back to f32; NaN: a NaN of
//! the same sign).
use std::panic::catch_unwind;
use toml_write::ToTomlValue as _;

fn parse_value(lit: &str) -> Result<Option<toml_edit::Value>, String> {
    let doc = format!("x = {lit}\n");
    catch_unwind(move || {
        doc.parse::<toml_edit::DocumentMut>().ok().and_then(|d| d.get("x").and_then(|v| v.as_value().cloned()))
    })
    .map_err(|_| "panic".to_owned())
}

fn bits64() -> Vec<u64> {
    let mut v = vec![
        0, 1 << 63, f64::NAN.to_bits(), f64::NAN.to_bits() | (1 << 63), f64::INFINITY.to_bits(),
        f64::NEG_INFINITY.to_bits(), 1f64.to_bits(), (-1f64).to_bits(), f64::MAX.to_bits(), f64::MIN.to_bits(),
        f64::MIN_POSITIVE.to_bits(), 1, 1e15f64.to_bits(), 1e16f64.to_bits(), 1e17f64.to_bits(), 1e300f64.to_bits(),
        0.1f64.to_bits(), 1e-7f64.to_bits(), 123456789.0f64.to_bits(), 9007199254740993.0f64.to_bits(),
    ];
    let mut x = 0x9e3779b97f4a7c15u64;
    for _ in 0..400 {
        x ^= x << 13;
        x ^= x >> 7;
        x ^= x << 17;
        v.push(x);
    }
    v
}

fn bits32() -> Vec<u32> {
    let mut v = vec![
        0, 1 << 31, f32::NAN.to_bits(), f32::NAN.to_bits() | (1 << 31), f32::INFINITY.to_bits(),
        f32::NEG_INFINITY.to_bits(), 1f32.to_bits(), (-1f32).to_bits(), f32::MAX.to_bits(), f32::MIN.to_bits(),
        f32::MIN_POSITIVE.to_bits(), 1, 1e7f32.to_bits(), 1e8f32.to_bits(), 16777216f32.to_bits(), 1e30f32.to_bits(),
        0.1f32.to_bits(), 1e-7f32.to_bits(), 1.1f32.to_bits(), 3.0f32.to_bits(),
    ];
    let mut x = 0x2545f491u32;
    for _ in 0..400 {
        x ^= x << 13;
        x ^= x >> 17;
        x ^= x << 5;
        v.push(x);
    }
    v
}

fn check64(b: u64) -> Option<String> {
    let f = f64::from_bits(b);
    let lit = match catch_unwind(move || f.to_toml_value()) {
        Ok(l) => l,
        Err(_) => return Some("the f64 writer panicked".to_owned()),
    };
    match parse_value(&lit) {
        Err(_) => Some(format!("parsing `{lit}` panicked")),
        Ok(None) => Some(format!("f64 bits {b:#018x} printed as `{lit}`, which is not a TOML value")),
        Ok(Some(toml_edit::Value::Float(p))) => {
            let p = *p.value();
            let same = if f.is_nan() { p.is_nan() && p.is_sign_negative() == f.is_sign_negative() } else { p.to_bits() == b };
            if same { None } else { Some(format!("f64 bits {b:#018x} printed as `{lit}`, which parses to bits {:#018x}", p.to_bits())) }
        }
        Ok(Some(other)) => Some(format!("f64 bits {b:#018x} printed as `{lit}`, a TOML {}", other.type_name())),
    }
}

fn check32(b: u32) -> Option<String> {
    let f = f32::from_bits(b);
    let lit = match catch_unwind(move || f.to_toml_value()) {
        Ok(l) => l,
        Err(_) => return Some("the f32 writer panicked".to_owned()),
    };
    match parse_value(&lit) {
        Err(_) => Some(format!("parsing `{lit}` panicked")),
        Ok(None) => Some(format!("f32 bits {b:#010x} printed as `{lit}`, which is not a TOML value")),
        Ok(Some(toml_edit::Value::Float(p))) => {
            let p = *p.value() as f32;
            let same = if f.is_nan() { p.is_nan() && p.is_sign_negative() == f.is_sign_negative() } else { p.to_bits() == b };
            if same { None } else { Some(format!("f32 bits {b:#010x} printed as `{lit}`, which parses to f32 bits {:#010x}", p.to_bits())) }
        }
        Ok(Some(other)) => Some(format!("f32 bits {b:#010x} printed as `{lit}`, a TOML {}", other.type_name())),
    }
}

fn check_arg(arg: &str) -> Option<String> {
    // arg: "f32:<hex bits>" or "f64:<hex bits>"
    let (ty, bits) = arg.split_once(':')?;
    let bits = u64::from_str_radix(bits, 16).ok()?;
    if ty == "f32" { check32(bits as u32) } else { check64(bits) }
}

pub fn witness() -> i32 {
    std::panic::set_hook(Box::new(|_| {}));
    let mut tried = 0;
    for b in bits32() {
        tried += 1;
        if let Some(r) = check32(b) {
            println!("WITNESS {{\"unit\":\"K11f\",\"arg\":\"f32:{b:x}\",\"input\":\"f32::from_bits({b:#010x}).to_toml_value()\",\"reason\":\"{}\"}}", crate::json_escape(&r));
            return 1;
        }
    }
    for b in bits64() {
        tried += 1;
        if let Some(r) = check64(b) {
            println!("WITNESS {{\"unit\":\"K11f\",\"arg\":\"f64:{b:x}\",\"input\":\"f64::from_bits({b:#018x}).to_toml_value()\",\"reason\":\"{}\"}}", crate::json_escape(&r));
            return 1;
        }
    }
    println!("NO-WITNESS tried {tried}");
    0
}

pub fn replay(arg: &str) -> i32 {
    std::panic::set_hook(Box::new(|_| {}));
    match check_arg(arg) {
        Some(r) => {
            println!("REPRODUCED {arg}: {r}");
            1
        }
        None => {
            println!("NOT-REPRODUCED {arg}: printed as a float literal that parses back to the same bits on the current tree");
            0
        }
    }
}
