//! V8 witness search: integer literals at the i64 edge, all four bases, against O-int
//! (mathematical value computed with i128): in range -> accepted with that value; out of
//! range -> rejected (never wrapped or saturated).
use std::panic::catch_unwind;

fn literals() -> Vec<String> {
    let mut v: Vec<String> = Vec::new();
    let edge: i128 = i64::MAX as i128;
    for x in [0i128, 1, 255, edge - 1, edge, edge + 1, edge + 2, (u64::MAX as i128) - 1, u64::MAX as i128, (u64::MAX as i128) + 1,
              1i128 << 64, (1i128 << 65) + 7] {
        v.push(format!("0x{:x}", x));
        v.push(format!("0x{:X}", x));
        v.push(format!("0o{:o}", x));
        v.push(format!("0b{:b}", x));
        v.push(format!("{}", x));
        v.push(format!("+{}", x));
        v.push(format!("-{}", x));
        v.push(format!("-{}", x + 1));
    }
    // underscores between digits
    v.push("0xFFFF_FFFF_FFFF_FFFF".to_owned());
    v.push("0x7FFF_FFFF_FFFF_FFFF".to_owned());
    v.push("0x8000_0000_0000_0000".to_owned());
    v.push("9_223_372_036_854_775_807".to_owned());
    v.push("9_223_372_036_854_775_808".to_owned());
    v.push("-9_223_372_036_854_775_808".to_owned());
    v.push("-9_223_372_036_854_775_809".to_owned());
    v.push("0o7_77777777777777777777".to_owned());
    v.push("0o1_000000000000000000000".to_owned());
    v
}

/// mathematical value of a well-formed literal
fn value(lit: &str) -> Option<i128> {
    let t = lit.replace('_', "");
    let (neg, body) = if let Some(b) = t.strip_prefix('-') { (true, b.to_owned()) } else if let Some(b) = t.strip_prefix('+') { (false, b.to_owned()) } else { (false, t.clone()) };
    let (radix, digits) = if let Some(d) = body.strip_prefix("0x") { (16, d) } else if let Some(d) = body.strip_prefix("0o") { (8, d) }
        else if let Some(d) = body.strip_prefix("0b") { (2, d) } else { (10, body.as_str()) };
    if radix != 10 && (neg || t.starts_with('+')) { return None; }
    if radix == 10 && digits.len() > 1 && digits.starts_with('0') { return None; }
    let v = i128::from_str_radix(digits, radix).ok()?;
    Some(if neg { -v } else { v })
}

fn check(lit: &str) -> Option<String> {
    let want = value(lit)?;
    let doc = format!("x = {lit}\n");
    let got = match catch_unwind(move || doc.parse::<toml_edit::DocumentMut>().ok().and_then(|d| d.get("x").and_then(|v| v.as_integer()))) {
        Ok(g) => g,
        Err(_) => return Some("parser panicked".to_owned()),
    };
    let fits = want >= i64::MIN as i128 && want <= i64::MAX as i128;
    match got {
        Some(g) if !fits => Some(format!("literal beyond i64 accepted as {g}")),
        Some(g) if g as i128 != want => Some(format!("decodes to {g}, the value is {want}")),
        None if fits => Some("literal within i64 rejected".to_owned()),
        _ => None,
    }
}

pub fn witness() -> i32 {
    std::panic::set_hook(Box::new(|_| {}));
    let mut tried = 0;
    for lit in literals() {
        tried += 1;
        if let Some(r) = check(&lit) {
            println!(
                "WITNESS {{\"unit\":\"V8\",\"arg\":\"{}\",\"input\":\"x = {}\",\"reason\":\"{}\"}}",
                crate::hex(lit.as_bytes()), crate::json_escape(&lit), crate::json_escape(&r)
            );
            return 1;
        }
    }
    println!("NO-WITNESS tried {tried}");
    0
}

pub fn replay(arg_hex: &str) -> i32 {
    std::panic::set_hook(Box::new(|_| {}));
    let lit = String::from_utf8(crate::unhex(arg_hex)).unwrap_or_default();
    match check(&lit) {
        Some(r) => {
            println!("REPRODUCED x = {lit}: {r}");
            1
        }
        None => {
            println!("NOT-REPRODUCED x = {lit} is handled per O-int on the current tree");
            0
        }
    }
}
