//! K3/K2/V4 witness search: the standalone date-time parser and the document grammar against
//! the executable oracle O-dt (spec_datetime), on a battery built around every range edge.
use std::panic::catch_unwind;
use std::str::FromStr;

include!("../../kani/spec/oracles.rs");

include!("../../specs/shared/battery_dt.rs");

fn battery() -> Vec<String> {
    dt_battery()
}

fn to_spec(d: &toml_datetime::Datetime) -> o_dt::DtSpec {
    o_dt::DtSpec {
        date: d.date.map(|x| (x.year, x.month, x.day)),
        time: d.time.map(|t| (t.hour, t.minute, t.second, t.nanosecond)),
        offset: d.offset.map(|o| match o {
            toml_datetime::Offset::Z => None,
            toml_datetime::Offset::Custom { minutes } => Some(minutes),
        }),
    }
}

fn check(s: &str) -> Option<String> {
    let want = o_dt::spec_datetime(s.as_bytes());
    // standalone parser
    let s2 = s.to_owned();
    let got = match catch_unwind(move || toml_datetime::Datetime::from_str(&s2).ok()) {
        Ok(g) => g,
        Err(_) => return Some("standalone parser panicked".to_owned()),
    };
    match (&got, &want) {
        (Some(d), Some(w)) if to_spec(d) != *w => return Some(format!("standalone parser yields {:?}, the grammar assigns {:?}", to_spec(d), w)),
        (Some(d), None) => return Some(format!("standalone parser accepts ({:?}), the date-time grammar rejects", to_spec(d))),
        (None, Some(w)) => return Some(format!("standalone parser rejects, the date-time grammar accepts as {:?}", w)),
        _ => {}
    }
    // document grammar (only for texts without characters that end the value early)
    if !s.is_empty() && !s.contains(['\n', '#', ',', ']', '}']) && !s.starts_with(' ') && !s.ends_with(' ') {
        let doc = format!("x = {s}\n");
        let r = match catch_unwind(move || doc.parse::<toml_edit::DocumentMut>().ok().map(|d| d.get("x").and_then(|v| v.as_datetime().copied()))) {
            Ok(r) => r,
            Err(_) => return Some("document parser panicked".to_owned()),
        };
        match (&r, &want) {
            (Some(Some(d)), Some(w)) if to_spec(d) != *w => return Some(format!("document parser yields {:?}, the grammar assigns {:?}", to_spec(d), w)),
            (Some(Some(d)), None) => return Some(format!("document parser accepts as date-time ({:?}), the grammar rejects", to_spec(d))),
            (None, Some(w)) | (Some(None), Some(w)) => return Some(format!("document parser does not yield a date-time, the grammar accepts as {:?}", w)),
            _ => {}
        }
    }
    // printer clause (sampled here; not decided by any contract): print and re-parse
    if let Some(d) = got {
        let printed = d.to_string();
        match toml_datetime::Datetime::from_str(&printed) {
            Ok(d2) if d2 == d => {}
            other => return Some(format!("printed form {:?} re-parses to {:?}", printed, other.ok().map(|x| to_spec(&x)))),
        }
    }
    None
}

pub fn witness() -> i32 {
    std::panic::set_hook(Box::new(|_| {}));
    let b = battery();
    let mut tried = 0;
    for s in &b {
        tried += 1;
        if let Some(r) = check(s) {
            println!(
                "WITNESS {{\"unit\":\"K3\",\"arg\":\"{}\",\"input\":\"{}\",\"reason\":\"{}\"}}",
                crate::hex(s.as_bytes()), crate::json_escape(s), crate::json_escape(&r)
            );
            println!("tried {tried}");
            return 1;
        }
    }
    println!("NO-WITNESS tried {tried}");
    0
}

pub fn replay(arg_hex: &str) -> i32 {
    std::panic::set_hook(Box::new(|_| {}));
    let s = String::from_utf8(crate::unhex(arg_hex)).unwrap_or_default();
    match check(&s) {
        Some(r) => {
            println!("REPRODUCED {:?}: {}", s, r);
            1
        }
        None => {
            println!("NOT-REPRODUCED {:?} is handled per the date-time grammar on the current tree", s);
            0
        }
    }
}

/// same digest lines as the `main` of the Verus-compiled extraction of unit V5
pub fn fidelity() -> i32 {
    std::panic::set_hook(Box::new(|_| {}));
    let b = dt_battery();
    let mut h = 0xcbf29ce484222325u64;
    let mut ok = 0usize;
    for s in &b {
        let s2 = s.clone();
        match catch_unwind(move || toml_datetime::Datetime::from_str(&s2).ok()) {
            Ok(Some(d)) => {
                ok += 1;
                let v = to_spec(&d);
                dt_fnv1a(&mut h, format!("{:?}|{:?}|{:?}", v.date, v.time, v.offset).as_bytes());
            }
            Ok(None) => dt_fnv1a(&mut h, b"<err>"),
            Err(_) => dt_fnv1a(&mut h, b"<panic>"),
        }
    }
    println!("battery {} accepted {} digest {:016x}", b.len(), ok, h);
    0
}

/// same digest as the `main` of the Verus-compiled extraction of unit V6 (the printer)
pub fn fidelity_printer() -> i32 {
    let mut h = 0xcbf29ce484222325u64;
    let vals = dt_values();
    for (date, time, offset) in &vals {
        let d = toml_datetime::Datetime {
            date: date.map(|(year, month, day)| toml_datetime::Date { year, month, day }),
            time: time.map(|(hour, minute, second, nanosecond)| toml_datetime::Time { hour, minute, second, nanosecond }),
            offset: offset.map(|o| match o { None => toml_datetime::Offset::Z, Some(minutes) => toml_datetime::Offset::Custom { minutes } }),
        };
        dt_fnv1a(&mut h, d.to_string().as_bytes());
    }
    println!("values {} digest {:016x}", vals.len(), h);
    0
}
