//! K3/K2/V4 witness search: the standalone date-time parser and the document grammar against
//! the executable oracle O-dt (spec_datetime), on a battery built around every range edge.
use std::panic::catch_unwind;
use std::str::FromStr;

include!("../../kani/spec/oracles.rs");

fn battery() -> Vec<String> {
    let mut v: Vec<String> = Vec::new();
    let hours = ["00", "09", "12", "23", "24", "25", "29", "30", "99"];
    let mins = ["00", "30", "59", "60", "61", "99"];
    let secs = ["00", "59", "60", "61", "99"];
    for h in hours {
        for m in mins {
            for s in secs {
                v.push(format!("{h}:{m}:{s}"));
            }
        }
    }
    let years = ["0000", "0001", "1900", "1999", "2000", "2023", "2024", "2100", "2400", "9999"];
    let months = ["00", "01", "02", "03", "04", "06", "09", "11", "12", "13", "19", "99"];
    let days = ["00", "01", "28", "29", "30", "31", "32", "39", "99"];
    for y in years {
        for mo in months {
            for d in days {
                v.push(format!("{y}-{mo}-{d}"));
            }
        }
    }
    let offsets = ["", "Z", "z", "+00:00", "-00:00", "+23:59", "-23:59", "+24:00", "-24:00", "+23:60", "+00:60",
                   "+00:99", "+99:00", "+1:00", "+01:0", "+0100", "+01:00Z", "ZZ", " Z", "+", "-", "+01", "+01:", "x"];
    let fracs = ["", ".", ".0", ".1", ".5", ".999", ".123456789", ".1234567891", ".1234567899", ".9999999999",
                 ".000000001", ".0000000001", ".1a", ".12345678901234567890", ".-1"];
    for delim in ["T", "t", " ", "_", "", "TT"] {
        for date in ["1979-05-27", "2000-02-29", "1900-02-29", "2023-02-29"] {
            for time in ["07:32:00", "23:59:60", "24:00:00", "00:60:00", "7:32:00"] {
                for f in fracs {
                    for o in offsets {
                        v.push(format!("{date}{delim}{time}{f}{o}"));
                    }
                }
            }
        }
    }
    for f in fracs {
        v.push(format!("12:34:56{f}"));
        v.push(format!("12:34:56{f}Z"));
    }
    for s in ["", "1", "12", "12:", "12:3", "1979", "1979-", "1979-05", "1979-05-2", "1979-05-27T", "1979-05-27 ",
              "\u{e9}\u{e9}:00:00", "1979-05-27T07:32:00\u{e9}", "19790527", "1979/05/27", " 1979-05-27", "1979-05-27\n"] {
        v.push(s.to_owned());
    }
    v
}

fn to_spec(d: &toml_datetime::Datetime) -> o_dt::DtSpec {
    o_dt::DtSpec {
        date: d.date.map(|x| (x.year, x.month, x.day)),
        time: d.time.map(|t| (t.hour, t.minute, t.second, t.nanosecond)),
        offset: d.offset.map(|o| match o {
            toml_datetime::Offset::Z => None,
            toml_datetime::Offset::Custom { minutes } => Some(minutes),
        }),
    }
}

fn check(s: &str) -> Option<String> {
    let want = o_dt::spec_datetime(s.as_bytes());
    // standalone parser
    let s2 = s.to_owned();
    let got = match catch_unwind(move || toml_datetime::Datetime::from_str(&s2).ok()) {
        Ok(g) => g,
        Err(_) => return Some("standalone parser panicked".to_owned()),
    };
    match (&got, &want) {
        (Some(d), Some(w)) if to_spec(d) != *w => return Some(format!("standalone parser yields {:?}, the grammar assigns {:?}", to_spec(d), w)),
        (Some(d), None) => return Some(format!("standalone parser accepts ({:?}), the date-time grammar rejects", to_spec(d))),
        (None, Some(w)) => return Some(format!("standalone parser rejects, the date-time grammar accepts as {:?}", w)),
        _ => {}
    }
    // document grammar (only for texts without characters that end the value early)
    if !s.is_empty() && !s.contains(['\n', '#', ',', ']', '}']) && !s.starts_with(' ') && !s.ends_with(' ') {
        let doc = format!("x = {s}\n");
        let r = match catch_unwind(move || doc.parse::<toml_edit::DocumentMut>().ok().map(|d| d.get("x").and_then(|v| v.as_datetime().copied()))) {
            Ok(r) => r,
            Err(_) => return Some("document parser panicked".to_owned()),
        };
        match (&r, &want) {
            (Some(Some(d)), Some(w)) if to_spec(d) != *w => return Some(format!("document parser yields {:?}, the grammar assigns {:?}", to_spec(d), w)),
            (Some(Some(d)), None) => return Some(format!("document parser accepts as date-time ({:?}), the grammar rejects", to_spec(d))),
            (None, Some(w)) | (Some(None), Some(w)) => return Some(format!("document parser does not yield a date-time, the grammar accepts as {:?}", w)),
            _ => {}
        }
    }
    // printer clause (sampled here; not decided by any contract): print and re-parse
    if let Some(d) = got {
        let printed = d.to_string();
        match toml_datetime::Datetime::from_str(&printed) {
            Ok(d2) if d2 == d => {}
            other => return Some(format!("printed form {:?} re-parses to {:?}", printed, other.ok().map(|x| to_spec(&x)))),
        }
    }
    None
}

pub fn witness() -> i32 {
    std::panic::set_hook(Box::new(|_| {}));
    let b = battery();
    let mut tried = 0;
    for s in &b {
        tried += 1;
        if let Some(r) = check(s) {
            println!(
                "WITNESS {{\"unit\":\"K3\",\"arg\":\"{}\",\"input\":\"{}\",\"reason\":\"{}\"}}",
                crate::hex(s.as_bytes()), crate::json_escape(s), crate::json_escape(&r)
            );
            println!("tried {tried}");
            return 1;
        }
    }
    println!("NO-WITNESS tried {tried}");
    0
}

pub fn replay(arg_hex: &str) -> i32 {
    std::panic::set_hook(Box::new(|_| {}));
    let s = String::from_utf8(crate::unhex(arg_hex)).unwrap_or_default();
    match check(&s) {
        Some(r) => {
            println!("REPRODUCED {:?}: {}", s, r);
            1
        }
        None => {
            println!("NOT-REPRODUCED {:?} is handled per the date-time grammar on the current tree", s);
            0
        }
    }
}
