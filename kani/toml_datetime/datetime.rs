// K3: Datetime::from_str == O-dt (spec_datetime) -- included at the end of
// crates/toml_datetime/src/datetime.rs under cfg(kani).  The crate forbids unsafe code, so
// strings are built with str::from_utf8 (which also brings multi-byte characters in scope).
mod verif_kani_datetime {
    use super::*;
    include!(concat!(env!("TOML_VERIF_KANI"), "/spec/oracles.rs"));
    use o_dt::{spec_datetime, DtSpec};

    fn to_spec(d: &Datetime) -> DtSpec {
        DtSpec {
            date: d.date.map(|x| (x.year, x.month, x.day)),
            time: d.time.map(|t| (t.hour, t.minute, t.second, t.nanosecond)),
            offset: d.offset.map(|o| match o {
                Offset::Z => None,
                Offset::Custom { minutes } => Some(minutes),
            }),
        }
    }

    /// the postcondition: from_str(s) == spec_datetime(s), field by field
    fn check(bytes: &[u8]) {
        let accepted = check_cov(bytes, true);
        kani::cover!(accepted, "some string is accepted");
    }

    /// returns whether from_str accepted (false for non-UTF-8 bytes, which cannot be a &str)
    fn check_cov(bytes: &[u8], _expect_accept: bool) -> bool {
        let s = match core::str::from_utf8(bytes) {
            Ok(s) => s,
            Err(_) => return false,
        };
        let got = Datetime::from_str(s);
        let want = spec_datetime(bytes);
        match (&got, &want) {
            (Ok(d), Some(w)) => {
                let g = to_spec(d);
                assert!(g.date == w.date, "date fields differ from the spec");
                assert!(g.time == w.time, "time fields differ from the spec");
                assert!(g.offset == w.offset, "offset differs from the spec");
            }
            (Err(_), None) => {}
            (Ok(_), None) => assert!(false, "from_str accepts a string the date-time grammar rejects"),
            (Err(_), Some(_)) => assert!(false, "from_str rejects a string the date-time grammar accepts"),
        }
        kani::cover!(got.is_err(), "some string is rejected");
        got.is_ok()
    }

    #[kani::proof]
    #[kani::unwind(5)]
    fn k3_short() {
        let a: [u8; 3] = kani::any();
        let n: usize = kani::any();
        kani::assume(n <= 3);
        check_cov(&a[..n], false);
    }

    // every string of the remaining lengths below 10 (none is a date-time except 8 bytes)
    #[kani::proof]
    #[kani::unwind(8)]
    fn k3_len4() { let a: [u8; 4] = kani::any(); check_cov(&a, false); }
    #[kani::proof]
    #[kani::unwind(8)]
    fn k3_len5() { let a: [u8; 5] = kani::any(); check_cov(&a, false); }
    #[kani::proof]
    #[kani::unwind(9)]
    fn k3_len6() { let a: [u8; 6] = kani::any(); check_cov(&a, false); }
    #[kani::proof]
    #[kani::unwind(10)]
    fn k3_len7() { let a: [u8; 7] = kani::any(); check_cov(&a, false); }
    #[kani::proof]
    #[kani::unwind(12)]
    fn k3_len9() { let a: [u8; 9] = kani::any(); check_cov(&a, false); }

    #[kani::proof]
    #[kani::unwind(10)]
    fn k3_time8() {
        let a: [u8; 8] = kani::any();
        check(&a);
    }

    #[kani::proof]
    #[kani::unwind(12)]
    fn k3_date10() {
        let a: [u8; 10] = kani::any();
        check(&a);
    }

    fn assume_ascii(bytes: &[u8]) {
        let mut i = 0;
        while i < bytes.len() {
            kani::assume(bytes[i] < 0x80);
            i += 1;
        }
    }

    // ASCII-only variants (the date-time alphabet is ASCII; non-ASCII bytes are covered by the
    // fully symbolic harnesses up to 10 bytes): every ASCII string of the given length
    #[kani::proof]
    #[kani::unwind(10)]
    fn k3a_time8() { let a: [u8; 8] = kani::any(); assume_ascii(&a); check(&a); }
    #[kani::proof]
    #[kani::unwind(11)]
    fn k3a_len9() { let a: [u8; 9] = kani::any(); assume_ascii(&a); check_cov(&a, false); }
    #[kani::proof]
    #[kani::unwind(12)]
    fn k3a_len10() { let a: [u8; 10] = kani::any(); assume_ascii(&a); check(&a); }
    #[kani::proof]
    #[kani::unwind(13)]
    fn k3a_len11() { let a: [u8; 11] = kani::any(); assume_ascii(&a); check(&a); }
    #[kani::proof]
    #[kani::unwind(14)]
    fn k3a_len12() { let a: [u8; 12] = kani::any(); assume_ascii(&a); check(&a); }
    #[kani::proof]
    #[kani::unwind(21)]
    fn k3a_len19() { let a: [u8; 19] = kani::any(); assume_ascii(&a); check(&a); }
    #[kani::proof]
    #[kani::unwind(22)]
    fn k3a_len20() { let a: [u8; 20] = kani::any(); assume_ascii(&a); check(&a); }
    #[kani::proof]
    #[kani::unwind(27)]
    fn k3a_len25() { let a: [u8; 25] = kani::any(); assume_ascii(&a); check(&a); }

    // local time with fractional seconds: fixed valid prefix, symbolic fraction (bounded: prefix fixed)
    fn frac<const K: usize>() {
        let f: [u8; K] = kani::any();
        let mut a = [0u8; 20];
        a[..9].copy_from_slice(b"12:34:56.");
        let mut i = 0;
        while i < K {
            a[9 + i] = f[i];
            i += 1;
        }
        check(&a[..9 + K]);
    }

    #[kani::proof]
    #[kani::unwind(22)]
    fn k3_frac1() { frac::<1>(); }
    #[kani::proof]
    #[kani::unwind(22)]
    fn k3_frac3() { frac::<3>(); }
    #[kani::proof]
    #[kani::unwind(22)]
    fn k3_frac9() { frac::<9>(); }
    #[kani::proof]
    #[kani::unwind(22)]
    fn k3_frac10() { frac::<10>(); }

    // offset date-time: fixed valid local date-time, symbolic suffix (bounded: prefix fixed)
    fn offset<const K: usize>() {
        let f: [u8; K] = kani::any();
        let mut a = [0u8; 26];
        a[..19].copy_from_slice(b"2000-02-29T23:59:60");
        let mut i = 0;
        while i < K {
            a[19 + i] = f[i];
            i += 1;
        }
        check(&a[..19 + K]);
    }

    #[kani::proof]
    #[kani::unwind(28)]
    fn k3_offset1() { offset::<1>(); }
    #[kani::proof]
    #[kani::unwind(28)]
    fn k3_offset6() { offset::<6>(); }

    // date, delimiter, time: date and delimiter symbolic, time symbolic (19 symbolic bytes)
    #[kani::proof]
    #[kani::unwind(21)]
    fn k3_datetime19() {
        let a: [u8; 19] = kani::any();
        check(&a);
    }
}
