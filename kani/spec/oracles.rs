// Executable transcription of the section-3 oracles (DESIGN.md).  Plain Rust, no
// dependencies; `include!`d into every Kani harness module and into /verif/replay.
// Kept textually parallel to the Verus spec fns in /verif/specs/*.verus.rs.

// ---------------------------------------------------------------- O-class (TOML 1.0.0 ABNF)
#[allow(dead_code)]
pub(crate) mod o_class {
    pub(crate) fn wschar(c: u8) -> bool { c == 0x20 || c == 0x09 }
    pub(crate) fn non_ascii(c: u8) -> bool { c >= 0x80 }
    pub(crate) fn non_eol(c: u8) -> bool { c == 0x09 || (0x20..=0x7e).contains(&c) || non_ascii(c) }
    pub(crate) fn basic_unescaped(c: u8) -> bool {
        wschar(c) || c == 0x21 || (0x23..=0x5b).contains(&c) || (0x5d..=0x7e).contains(&c) || non_ascii(c)
    }
    pub(crate) fn literal_char(c: u8) -> bool {
        c == 0x09 || (0x20..=0x26).contains(&c) || (0x28..=0x7e).contains(&c) || non_ascii(c)
    }
    pub(crate) fn unquoted_char(c: u8) -> bool {
        (0x41..=0x5a).contains(&c) || (0x61..=0x7a).contains(&c) || (0x30..=0x39).contains(&c) || c == 0x2d || c == 0x5f
    }
    pub(crate) fn digit(c: u8) -> bool { (0x30..=0x39).contains(&c) }
    pub(crate) fn hexdig(c: u8) -> bool { digit(c) || (0x41..=0x46).contains(&c) || (0x61..=0x66).contains(&c) }
    pub(crate) fn digit1_9(c: u8) -> bool { (0x31..=0x39).contains(&c) }
    pub(crate) fn digit0_7(c: u8) -> bool { (0x30..=0x37).contains(&c) }
    pub(crate) fn digit0_1(c: u8) -> bool { c == 0x30 || c == 0x31 }
    pub(crate) fn time_delim(c: u8) -> bool { c == b'T' || c == b't' || c == b' ' }
}

// ---------------------------------------------------------------- O-date
#[allow(dead_code)]
pub(crate) mod o_date {
    pub(crate) fn is_leap(y: u16) -> bool { y % 4 == 0 && (y % 100 != 0 || y % 400 == 0) }
    pub(crate) fn days_in_month(y: u16, m: u8) -> u8 {
        match m {
            1 | 3 | 5 | 7 | 8 | 10 | 12 => 31,
            4 | 6 | 9 | 11 => 30,
            2 => if is_leap(y) { 29 } else { 28 },
            _ => 0,
        }
    }
    pub(crate) fn valid_date(y: u16, m: u8, d: u8) -> bool { (1..=12).contains(&m) && d >= 1 && d <= days_in_month(y, m) }
    pub(crate) fn valid_time(h: u8, mi: u8, s: u8) -> bool { h <= 23 && mi <= 59 && s <= 60 }
    pub(crate) fn valid_offset(h: u8, mi: u8) -> bool { h <= 23 && mi <= 59 }
    /// two ASCII digits -> value
    pub(crate) fn two(a: u8, b: u8) -> Option<u8> {
        if a.is_ascii_digit() && b.is_ascii_digit() { Some((a - b'0') * 10 + (b - b'0')) } else { None }
    }
    pub(crate) fn four(a: u8, b: u8, c: u8, d: u8) -> Option<u16> {
        if a.is_ascii_digit() && b.is_ascii_digit() && c.is_ascii_digit() && d.is_ascii_digit() {
            Some((a - b'0') as u16 * 1000 + (b - b'0') as u16 * 100 + (c - b'0') as u16 * 10 + (d - b'0') as u16)
        } else { None }
    }
    /// secfrac digits (1 or more ASCII digits): first nine, right-padded with zeros (truncation)
    pub(crate) fn secfrac(digits: &[u8]) -> Option<u32> {
        if digits.is_empty() { return None; }
        let mut v: u32 = 0;
        let mut i = 0;
        while i < 9 {
            v *= 10;
            if i < digits.len() {
                if !digits[i].is_ascii_digit() { return None; }
                v += (digits[i] - b'0') as u32;
            }
            i += 1;
        }
        let mut j = 9;
        while j < digits.len() {
            if !digits[j].is_ascii_digit() { return None; }
            j += 1;
        }
        Some(v)
    }
}

// ---------------------------------------------------------------- O-esc
#[allow(dead_code)]
pub(crate) mod o_esc {
    pub(crate) fn escape_value(b: u8) -> Option<char> {
        match b {
            b'b' => Some('\u{8}'), b't' => Some('\t'), b'n' => Some('\n'), b'f' => Some('\u{c}'),
            b'r' => Some('\r'), b'"' => Some('"'), b'\\' => Some('\\'), _ => None,
        }
    }
    pub(crate) fn hexval(c: u8) -> Option<u32> {
        match c { b'0'..=b'9' => Some((c - b'0') as u32), b'A'..=b'F' => Some((c - b'A') as u32 + 10),
                  b'a'..=b'f' => Some((c - b'a') as u32 + 10), _ => None }
    }
    /// Some(scalar value) iff every byte is HEXDIG, value <= 10FFFF and not a surrogate
    pub(crate) fn hex_scalar(digits: &[u8]) -> Option<u32> {
        let mut v: u32 = 0;
        let mut i = 0;
        while i < digits.len() {
            match hexval(digits[i]) { Some(d) => { v = v * 16 + d; } None => return None }
            i += 1;
        }
        if v > 0x10FFFF || (0xD800..=0xDFFF).contains(&v) { None } else { Some(v) }
    }
}

// ---------------------------------------------------------------- O-pos
#[allow(dead_code)]
pub(crate) mod o_pos {
    /// (line, column) of byte `index` in valid UTF-8 `input`; column counts scalar values;
    /// an index at or past the end is clamped to the last byte and the excess added.
    pub(crate) fn line_col(input: &[u8], index: usize) -> (usize, usize) {
        if input.is_empty() { return (0, index); }
        let safe = if index < input.len() { index } else { input.len() - 1 };
        let excess = index - safe;
        let mut line = 0usize;
        let mut line_start = 0usize;
        let mut i = 0usize;
        while i < safe {
            if input[i] == b'\n' { line += 1; line_start = i + 1; }
            i += 1;
        }
        // scalar values in input[line_start..safe] = bytes that are not continuation bytes
        let mut col = 0usize;
        let mut j = line_start;
        while j < safe {
            if input[j] & 0xC0 != 0x80 { col += 1; }
            j += 1;
        }
        (line, col + excess)
    }
}
