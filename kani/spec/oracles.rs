// Executable transcription of the section-3 oracles (DESIGN.md).  Plain Rust, no
// dependencies; `include!`d into every Kani harness module and into /verif/replay.
// Kept textually parallel to the Verus spec fns in /verif/specs/*.verus.rs.

// ---------------------------------------------------------------- O-class (TOML 1.0.0 ABNF)
#[allow(dead_code)]
pub(crate) mod o_class {
    pub(crate) fn wschar(c: u8) -> bool { c == 0x20 || c == 0x09 }
    pub(crate) fn non_ascii(c: u8) -> bool { c >= 0x80 }
    pub(crate) fn non_eol(c: u8) -> bool { c == 0x09 || (0x20..=0x7e).contains(&c) || non_ascii(c) }
    pub(crate) fn basic_unescaped(c: u8) -> bool {
        wschar(c) || c == 0x21 || (0x23..=0x5b).contains(&c) || (0x5d..=0x7e).contains(&c) || non_ascii(c)
    }
    pub(crate) fn literal_char(c: u8) -> bool {
        c == 0x09 || (0x20..=0x26).contains(&c) || (0x28..=0x7e).contains(&c) || non_ascii(c)
    }
    pub(crate) fn unquoted_char(c: u8) -> bool {
        (0x41..=0x5a).contains(&c) || (0x61..=0x7a).contains(&c) || (0x30..=0x39).contains(&c) || c == 0x2d || c == 0x5f
    }
    pub(crate) fn digit(c: u8) -> bool { (0x30..=0x39).contains(&c) }
    pub(crate) fn hexdig(c: u8) -> bool { digit(c) || (0x41..=0x46).contains(&c) || (0x61..=0x66).contains(&c) }
    pub(crate) fn digit1_9(c: u8) -> bool { (0x31..=0x39).contains(&c) }
    pub(crate) fn digit0_7(c: u8) -> bool { (0x30..=0x37).contains(&c) }
    pub(crate) fn digit0_1(c: u8) -> bool { c == 0x30 || c == 0x31 }
    pub(crate) fn time_delim(c: u8) -> bool { c == b'T' || c == b't' || c == b' ' }
}

// ---------------------------------------------------------------- O-date
#[allow(dead_code)]
pub(crate) mod o_date {
    pub(crate) fn is_leap(y: u16) -> bool { y % 4 == 0 && (y % 100 != 0 || y % 400 == 0) }
    pub(crate) fn days_in_month(y: u16, m: u8) -> u8 {
        match m {
            1 | 3 | 5 | 7 | 8 | 10 | 12 => 31,
            4 | 6 | 9 | 11 => 30,
            2 => if is_leap(y) { 29 } else { 28 },
            _ => 0,
        }
    }
    pub(crate) fn valid_date(y: u16, m: u8, d: u8) -> bool { (1..=12).contains(&m) && d >= 1 && d <= days_in_month(y, m) }
    pub(crate) fn valid_time(h: u8, mi: u8, s: u8) -> bool { h <= 23 && mi <= 59 && s <= 60 }
    pub(crate) fn valid_offset(h: u8, mi: u8) -> bool { h <= 23 && mi <= 59 }
    /// two ASCII digits -> value
    pub(crate) fn two(a: u8, b: u8) -> Option<u8> {
        if a.is_ascii_digit() && b.is_ascii_digit() { Some((a - b'0') * 10 + (b - b'0')) } else { None }
    }
    pub(crate) fn four(a: u8, b: u8, c: u8, d: u8) -> Option<u16> {
        if a.is_ascii_digit() && b.is_ascii_digit() && c.is_ascii_digit() && d.is_ascii_digit() {
            Some((a - b'0') as u16 * 1000 + (b - b'0') as u16 * 100 + (c - b'0') as u16 * 10 + (d - b'0') as u16)
        } else { None }
    }
    /// secfrac digits (1 or more ASCII digits): first nine, right-padded with zeros (truncation)
    pub(crate) fn secfrac(digits: &[u8]) -> Option<u32> {
        if digits.is_empty() { return None; }
        let mut v: u32 = 0;
        let mut i = 0;
        while i < 9 {
            v *= 10;
            if i < digits.len() {
                if !digits[i].is_ascii_digit() { return None; }
                v += (digits[i] - b'0') as u32;
            }
            i += 1;
        }
        let mut j = 9;
        while j < digits.len() {
            if !digits[j].is_ascii_digit() { return None; }
            j += 1;
        }
        Some(v)
    }
}

// ---------------------------------------------------------------- O-esc
#[allow(dead_code)]
pub(crate) mod o_esc {
    pub(crate) fn escape_value(b: u8) -> Option<char> {
        match b {
            b'b' => Some('\u{8}'), b't' => Some('\t'), b'n' => Some('\n'), b'f' => Some('\u{c}'),
            b'r' => Some('\r'), b'"' => Some('"'), b'\\' => Some('\\'), _ => None,
        }
    }
    pub(crate) fn hexval(c: u8) -> Option<u32> {
        match c { b'0'..=b'9' => Some((c - b'0') as u32), b'A'..=b'F' => Some((c - b'A') as u32 + 10),
                  b'a'..=b'f' => Some((c - b'a') as u32 + 10), _ => None }
    }
    /// Some(scalar value) iff every byte is HEXDIG, value <= 10FFFF and not a surrogate
    pub(crate) fn hex_scalar(digits: &[u8]) -> Option<u32> {
        let mut v: u32 = 0;
        let mut i = 0;
        while i < digits.len() {
            match hexval(digits[i]) { Some(d) => { v = v * 16 + d; } None => return None }
            i += 1;
        }
        if v > 0x10FFFF || (0xD800..=0xDFFF).contains(&v) { None } else { Some(v) }
    }
}

// ---------------------------------------------------------------- O-pos
#[allow(dead_code)]
pub(crate) mod o_pos {
    /// (line, column) of byte `index` in valid UTF-8 `input`: line = number of LF before the
    /// position, column = number of characters between the line start and the character that
    /// contains the position; an index at or past the end is clamped to the last byte and the
    /// excess added (so end of input points one past the last character of the last line).
    pub(crate) fn line_col(input: &[u8], index: usize) -> (usize, usize) {
        if input.is_empty() { return (0, index); }
        let safe = if index < input.len() { index } else { input.len() - 1 };
        let excess = index - safe;
        let mut line = 0usize;
        let mut line_start = 0usize;
        let mut i = 0usize;
        while i < safe {
            if input[i] == b'\n' { line += 1; line_start = i + 1; }
            i += 1;
        }
        // characters before the one that contains byte `safe`: scalar values that START in
        // input[line_start..=safe] (bytes that are not continuation bytes), minus that one
        let mut starts = 0usize;
        let mut j = line_start;
        while j <= safe {
            if input[j] & 0xC0 != 0x80 { starts += 1; }
            j += 1;
        }
        let col = if starts > 0 { starts - 1 } else { 0 };
        (line, col + excess)
    }
}

// ---------------------------------------------------------------- O-dt
// spec_datetime: the four date-time shapes of the TOML 1.0.0 ABNF / RFC 3339 over bytes.
#[allow(dead_code)]
pub(crate) mod o_dt {
    use super::o_class;
    use super::o_date;

    #[derive(Clone, Copy, PartialEq, Eq, Debug)]
    pub(crate) struct DtSpec {
        pub(crate) date: Option<(u16, u8, u8)>,
        pub(crate) time: Option<(u8, u8, u8, u32)>,
        /// None: no offset; Some(None): Z; Some(Some(m)): numeric offset in minutes
        pub(crate) offset: Option<Option<i16>>,
    }

    /// full-date = date-fullyear "-" date-month "-" date-mday
    pub(crate) fn parse_date(s: &[u8], i: usize) -> Option<((u16, u8, u8), usize)> {
        if s.len() < i + 10 { return None; }
        let y = o_date::four(s[i], s[i + 1], s[i + 2], s[i + 3])?;
        if s[i + 4] != b'-' { return None; }
        let m = o_date::two(s[i + 5], s[i + 6])?;
        if s[i + 7] != b'-' { return None; }
        let d = o_date::two(s[i + 8], s[i + 9])?;
        if !o_date::valid_date(y, m, d) { return None; }
        Some(((y, m, d), i + 10))
    }

    /// partial-time = time-hour ":" time-minute ":" time-second [ "." 1*DIGIT ]
    pub(crate) fn parse_time(s: &[u8], i: usize) -> Option<((u8, u8, u8, u32), usize)> {
        if s.len() < i + 8 { return None; }
        let h = o_date::two(s[i], s[i + 1])?;
        if s[i + 2] != b':' { return None; }
        let mi = o_date::two(s[i + 3], s[i + 4])?;
        if s[i + 5] != b':' { return None; }
        let sec = o_date::two(s[i + 6], s[i + 7])?;
        if !o_date::valid_time(h, mi, sec) { return None; }
        let mut j = i + 8;
        let mut ns = 0u32;
        if j < s.len() && s[j] == b'.' {
            let start = j + 1;
            let mut k = start;
            while k < s.len() && o_class::digit(s[k]) { k += 1; }
            if k == start { return None; }
            ns = o_date::secfrac(&s[start..k])?;
            j = k;
        }
        Some(((h, mi, sec, ns), j))
    }

    /// time-offset = "Z" / ( "+" / "-" ) time-hour ":" time-minute
    pub(crate) fn parse_offset(s: &[u8], i: usize) -> Option<(Option<i16>, usize)> {
        if i >= s.len() { return None; }
        if s[i] == b'Z' || s[i] == b'z' { return Some((None, i + 1)); }
        let sign: i16 = if s[i] == b'+' { 1 } else if s[i] == b'-' { -1 } else { return None; };
        if s.len() < i + 6 { return None; }
        let h = o_date::two(s[i + 1], s[i + 2])?;
        if s[i + 3] != b':' { return None; }
        let m = o_date::two(s[i + 4], s[i + 5])?;
        if !o_date::valid_offset(h, m) { return None; }
        Some((Some(sign * (h as i16 * 60 + m as i16)), i + 6))
    }

    pub(crate) fn spec_datetime(s: &[u8]) -> Option<DtSpec> {
        if let Some((d, i)) = parse_date(s, 0) {
            if i == s.len() {
                return Some(DtSpec { date: Some(d), time: None, offset: None });
            }
            if !o_class::time_delim(s[i]) { return None; }
            let (t, j) = parse_time(s, i + 1)?;
            if j == s.len() {
                return Some(DtSpec { date: Some(d), time: Some(t), offset: None });
            }
            let (o, k) = parse_offset(s, j)?;
            if k == s.len() {
                return Some(DtSpec { date: Some(d), time: Some(t), offset: Some(o) });
            }
            None
        } else if let Some((t, j)) = parse_time(s, 0) {
            if j == s.len() { Some(DtSpec { date: None, time: Some(t), offset: None }) } else { None }
        } else {
            None
        }
    }
}

// ---------------------------------------------------------------- O-str (executable, byte level)
// Prefix decoder for a basic string at the start of `s`: Some((decoded bytes, bytes consumed))
// when `s` starts with a complete basic-string token, None otherwise.  `\u`/`\U` escapes are
// decoded to UTF-8; a surrogate or out-of-range code point makes the token invalid.
#[allow(dead_code)]
pub(crate) mod o_str {
    use super::o_class;
    use super::o_esc;

    pub(crate) fn push_scalar(out: &mut Vec<u8>, v: u32) {
        if v < 0x80 { out.push(v as u8); }
        else if v < 0x800 { out.push(0xC0 | (v >> 6) as u8); out.push(0x80 | (v & 0x3F) as u8); }
        else if v < 0x10000 { out.push(0xE0 | (v >> 12) as u8); out.push(0x80 | ((v >> 6) & 0x3F) as u8); out.push(0x80 | (v & 0x3F) as u8); }
        else { out.push(0xF0 | (v >> 18) as u8); out.push(0x80 | ((v >> 12) & 0x3F) as u8); out.push(0x80 | ((v >> 6) & 0x3F) as u8); out.push(0x80 | (v & 0x3F) as u8); }
    }

    pub(crate) fn dec_basic_prefix(s: &[u8]) -> Option<(Vec<u8>, usize)> {
        if s.is_empty() || s[0] != 0x22 { return None; }
        let mut out = Vec::new();
        let mut i = 1;
        while i < s.len() {
            let c = s[i];
            if c == 0x22 { return Some((out, i + 1)); }
            if o_class::basic_unescaped(c) { out.push(c); i += 1; continue; }
            if c != 0x5c || i + 1 >= s.len() { return None; }
            let e = s[i + 1];
            if let Some(ch) = o_esc::escape_value(e) { out.push(ch as u8); i += 2; continue; }
            let n = if e == b'u' { 4 } else if e == b'U' { 8 } else { return None; };
            if i + 2 + n > s.len() { return None; }
            let v = o_esc::hex_scalar(&s[i + 2..i + 2 + n])?;
            push_scalar(&mut out, v);
            i += 2 + n;
        }
        None
    }
}
