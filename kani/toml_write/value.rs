// K11f: the f64 writer's special cases -- included at the end of crates/toml_write/src/value.rs under cfg(kani)
#[cfg(feature = "alloc")]
mod verif_kani_value {
    use super::*;

    fn printed(f: f64) -> String {
        let mut s = String::new();
        f.write_toml_value(&mut s).unwrap();
        s
    }

    // The writer's special-case table: NaN and zero carry their sign into the literal ("nan" / "-nan",
    // "0.0" / "-0.0"), so that parsing it back (K7s for nan) yields the same sign bit.  The branch
    // conditions depend only on (sign, is_nan, == 0.0); one representative per combination (a symbolic
    // f64 drags the whole float formatter into CBMC: 15 min without a verdict).
    #[kani::proof]
    #[kani::unwind(8)]
    fn k11_f64_nan_and_zero() {
        assert!(printed(f64::NAN.copysign(1.0)) == "nan", "positive NaN not printed as nan");
        assert!(printed(f64::NAN.copysign(-1.0)) == "-nan", "negative NaN not printed as -nan");
        assert!(printed(0.0) == "0.0", "positive zero not printed as 0.0");
        assert!(printed(-0.0) == "-0.0", "negative zero not printed as -0.0");
        kani::cover!(true);
    }
    fn printed32(f: f32) -> String {
        let mut s = String::new();
        f.write_toml_value(&mut s).unwrap();
        s
    }

    // f32 is accepted by the same writer trait: its special cases must be TOML float literals too
    // (`NaN` is not TOML; a bare `0` is an integer)
    #[kani::proof]
    #[kani::unwind(8)]
    fn k11_f32_nan_and_zero() {
        assert!(printed32(f32::NAN.copysign(1.0)) == "nan", "positive f32 NaN not printed as nan");
        assert!(printed32(f32::NAN.copysign(-1.0)) == "-nan", "negative f32 NaN not printed as -nan");
        assert!(printed32(0.0) == "0.0", "positive f32 zero not printed as 0.0");
        assert!(printed32(-0.0) == "-0.0", "negative f32 zero not printed as -0.0");
        kani::cover!(true);
    }

    // Dropped after measurement: 1.0f32 / 1.0f64 through the real float formatter (760 s unwinding
    // failure / 900 s timeout).  The integral branch (`{self}.0`) is covered by the witness battery
    // of the replay crate (verif_replay witness-k11f) only.
}
