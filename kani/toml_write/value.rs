// K11f: the f64 writer's special cases -- included at the end of crates/toml_write/src/value.rs under cfg(kani)
#[cfg(feature = "alloc")]
mod verif_kani_value {
    use super::*;

    fn printed(f: f64) -> String {
        let mut s = String::new();
        f.write_toml_value(&mut s).unwrap();
        s
    }

    // The writer's special-case table: NaN and zero carry their sign into the literal ("nan" / "-nan",
    // "0.0" / "-0.0"), so that parsing it back (K7s for nan) yields the same sign bit.  The branch
    // conditions depend only on (sign, is_nan, == 0.0); one representative per combination (a symbolic
    // f64 drags the whole float formatter into CBMC: 15 min without a verdict).
    #[kani::proof]
    #[kani::unwind(8)]
    fn k11_f64_nan_and_zero() {
        assert!(printed(f64::NAN.copysign(1.0)) == "nan", "positive NaN not printed as nan");
        assert!(printed(f64::NAN.copysign(-1.0)) == "-nan", "negative NaN not printed as -nan");
        assert!(printed(0.0) == "0.0", "positive zero not printed as 0.0");
        assert!(printed(-0.0) == "-0.0", "negative zero not printed as -0.0");
        kani::cover!(true);
    }
    fn printed32(f: f32) -> String {
        let mut s = String::new();
        f.write_toml_value(&mut s).unwrap();
        s
    }

    // f32 is accepted by the same writer trait: its special cases must be TOML float literals too
    // (`NaN` is not TOML; a bare `0` is an integer)
    #[kani::proof]
    #[kani::unwind(8)]
    fn k11_f32_nan_and_zero() {
        assert!(printed32(f32::NAN.copysign(1.0)) == "nan", "positive f32 NaN not printed as nan");
        assert!(printed32(f32::NAN.copysign(-1.0)) == "-nan", "negative f32 NaN not printed as -nan");
        assert!(printed32(0.0) == "0.0", "positive f32 zero not printed as 0.0");
        assert!(printed32(-0.0) == "-0.0", "negative f32 zero not printed as -0.0");
        kani::cover!(true);
    }

    // Dropped after measurement: 1.0f32 / 1.0f64 through the real float formatter (760 s unwinding
    // failure / 900 s timeout).  The integral branch (`{self}.0`) is covered by the witness battery
    // of the replay crate (verif_replay witness-k11f) only.
    // The writers' branch structure over EVERY f64 / f32, with core's float Display stubbed by a
    // fixed token "D" (what core prints for a float -- shortest round-trip digits, no exponent, no
    // '.' for integral values, "inf" / "-inf" -- is trusted): the output is exactly
    //   nan | -nan | 0.0 | -0.0 | D (infinities) | D or D.0 (finite non-zero)
    // for the classes that do not depend on the integrality test: every NaN, both zeros, both
    // infinities (never "inf.0"), and any other value is Display's digits with or without ".0".
    fn stub_f64_display(_v: &f64, f: &mut core::fmt::Formatter<'_>) -> core::fmt::Result {
        f.write_str("D")
    }

    fn stub_f32_display(_v: &f32, f: &mut core::fmt::Formatter<'_>) -> core::fmt::Result {
        f.write_str("D")
    }

    // the other width's Display prints a different token: a writer that detours through the other
    // float type (seed C11-r1: f64 values that are exactly an f32 printed with f32's shorter digits,
    // which parse back to a different f64) is then judged instead of dragging the real formatter in
    fn stub_other_f32_display(_v: &f32, f: &mut core::fmt::Formatter<'_>) -> core::fmt::Result {
        f.write_str("E")
    }

    fn stub_other_f64_display(_v: &f64, f: &mut core::fmt::Formatter<'_>) -> core::fmt::Result {
        f.write_str("E")
    }

    #[kani::proof]
    #[kani::unwind(8)]
    #[kani::stub(<f64 as core::fmt::Display>::fmt, stub_f64_display)]
    #[kani::stub(<f32 as core::fmt::Display>::fmt, stub_other_f32_display)]
    fn k11_f64_structure() {
        let v: f64 = kani::any();
        let s = printed(v);
        if v.is_nan() {
            assert!(s == if v.is_sign_negative() { "-nan" } else { "nan" }, "NaN not printed as [-]nan");
        } else if v == 0.0 {
            assert!(s == if v.is_sign_negative() { "-0.0" } else { "0.0" }, "zero not printed as [-]0.0");
        } else if v.is_infinite() {
            assert!(s == "D", "an infinity is not printed by Display alone");
        } else {
            // which of the two is decided by `self % 1.0 == 0.0`: not judged here (CBMC's model of the
            // float remainder disagrees with `trunc` on some non-integral values, so neither
            // formulation of "integral" can be used as an oracle)
            assert!(s == "D.0" || s == "D", "a finite non-zero value is not Display's digits with an optional .0");
        }
        kani::cover!(s.len() == 3 && !v.is_nan() && v != 0.0, "a value printed with .0");
        kani::cover!(s.len() == 1 && v.is_infinite(), "an infinity");
    }

    #[kani::proof]
    #[kani::unwind(8)]
    #[kani::stub(<f32 as core::fmt::Display>::fmt, stub_f32_display)]
    #[kani::stub(<f64 as core::fmt::Display>::fmt, stub_other_f64_display)]
    fn k11_f32_structure() {
        let v: f32 = kani::any();
        let s = printed32(v);
        if v.is_nan() {
            assert!(s == if v.is_sign_negative() { "-nan" } else { "nan" }, "f32 NaN not printed as [-]nan");
        } else if v == 0.0 {
            assert!(s == if v.is_sign_negative() { "-0.0" } else { "0.0" }, "f32 zero not printed as [-]0.0");
        } else if v.is_infinite() {
            assert!(s == "D", "an f32 infinity is not printed by Display alone");
        } else {
            assert!(s == "D.0" || s == "D", "a finite non-zero f32 is not Display's digits with an optional .0");
        }
        kani::cover!(s.len() == 3 && !v.is_nan() && v != 0.0, "a value printed with .0");
        kani::cover!(s.len() == 1 && v.is_infinite(), "an infinity");
    }
}
