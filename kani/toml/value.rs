// K6: checked integer conversions of toml::Value (serializer and visitor) -- included at the
// end of crates/toml/src/value.rs under cfg(kani)
mod verif_kani_value {
    use super::*;
    use serde::ser::Serializer as _;

    fn stub_format(_args: core::fmt::Arguments<'_>) -> String {
        String::new()
    }

    #[kani::proof]
    #[kani::unwind(8)]
    #[kani::stub(alloc::fmt::format, stub_format)]
    fn k6_toml_serialize_u64() {
        let v: u64 = kani::any();
        let r = ValueSerializer.serialize_u64(v);
        match &r {
            Ok(Value::Integer(x)) => {
                assert!(v <= i64::MAX as u64, "u64 beyond i64 serialized instead of rejected");
                assert!(*x == v as i64, "u64 value altered");
            }
            Ok(_) => assert!(false, "u64 serialized to a non-integer"),
            Err(_) => assert!(v > i64::MAX as u64, "u64 within i64 rejected"),
        }
        kani::cover!(r.is_ok());
        kani::cover!(r.is_err());
        core::mem::forget(r);
    }

    #[kani::proof]
    #[kani::unwind(8)]
    #[kani::stub(alloc::fmt::format, stub_format)]
    fn k6_toml_visit_u64() {
        let v: u64 = kani::any();
        let r: Result<Value, crate::de::Error> =
            serde::Deserialize::deserialize(serde::de::value::U64Deserializer::new(v));
        match &r {
            Ok(Value::Integer(x)) => {
                assert!(v <= i64::MAX as u64, "u64 beyond i64 accepted by the visitor");
                assert!(*x == v as i64, "u64 value altered by the visitor");
            }
            Ok(_) => assert!(false, "u64 visited to a non-integer"),
            Err(_) => assert!(v > i64::MAX as u64, "u64 within i64 rejected by the visitor"),
        }
        kani::cover!(r.is_ok());
        kani::cover!(r.is_err());
        core::mem::forget(r);
    }

    #[kani::proof]
    #[kani::unwind(8)]
    fn k6_toml_narrow() {
        let a: u32 = kani::any();
        let r = ValueSerializer.serialize_u32(a);
        assert!(matches!(&r, Ok(Value::Integer(x)) if *x == a as i64), "u32 altered");
        core::mem::forget(r);
        let b: i32 = kani::any();
        let r = ValueSerializer.serialize_i32(b);
        assert!(matches!(&r, Ok(Value::Integer(x)) if *x == b as i64), "i32 altered");
        core::mem::forget(r);
        let c: i64 = kani::any();
        let r = ValueSerializer.serialize_i64(c);
        assert!(matches!(&r, Ok(Value::Integer(x)) if *x == c), "i64 altered");
        core::mem::forget(r);
        let d: u32 = kani::any();
        let r: Result<Value, crate::de::Error> =
            serde::Deserialize::deserialize(serde::de::value::U32Deserializer::new(d));
        assert!(matches!(&r, Ok(Value::Integer(x)) if *x == d as i64), "u32 altered by the visitor");
        kani::cover!(r.is_ok());
        core::mem::forget(r);
    }
}
