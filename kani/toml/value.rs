// K6: checked integer conversions of toml::Value (serializer and visitor) -- included at the
// end of crates/toml/src/value.rs under cfg(kani)
mod verif_kani_value {
    use super::*;
    use serde::ser::Serializer as _;

    fn stub_format(_args: core::fmt::Arguments<'_>) -> String {
        String::new()
    }

    #[kani::proof]
    #[kani::unwind(8)]
    #[kani::stub(alloc::fmt::format, stub_format)]
    fn k6_toml_serialize_u64() {
        let v: u64 = kani::any();
        let r = ValueSerializer.serialize_u64(v);
        match &r {
            Ok(Value::Integer(x)) => {
                assert!(v <= i64::MAX as u64, "u64 beyond i64 serialized instead of rejected");
                assert!(*x == v as i64, "u64 value altered");
            }
            Ok(_) => assert!(false, "u64 serialized to a non-integer"),
            Err(_) => assert!(v > i64::MAX as u64, "u64 within i64 rejected"),
        }
        kani::cover!(r.is_ok());
        kani::cover!(r.is_err());
        core::mem::forget(r);
    }

    #[kani::proof]
    #[kani::unwind(8)]
    #[kani::stub(alloc::fmt::format, stub_format)]
    fn k6_toml_visit_u64() {
        let v: u64 = kani::any();
        let r: Result<Value, crate::de::Error> =
            serde::Deserialize::deserialize(serde::de::value::U64Deserializer::new(v));
        match &r {
            Ok(Value::Integer(x)) => {
                assert!(v <= i64::MAX as u64, "u64 beyond i64 accepted by the visitor");
                assert!(*x == v as i64, "u64 value altered by the visitor");
            }
            Ok(_) => assert!(false, "u64 visited to a non-integer"),
            Err(_) => assert!(v > i64::MAX as u64, "u64 within i64 rejected by the visitor"),
        }
        kani::cover!(r.is_ok());
        kani::cover!(r.is_err());
        core::mem::forget(r);
    }

    #[kani::proof]
    #[kani::unwind(8)]
    fn k6_toml_narrow() {
        let a: u32 = kani::any();
        let r = ValueSerializer.serialize_u32(a);
        assert!(matches!(&r, Ok(Value::Integer(x)) if *x == a as i64), "u32 altered");
        core::mem::forget(r);
        let b: i32 = kani::any();
        let r = ValueSerializer.serialize_i32(b);
        assert!(matches!(&r, Ok(Value::Integer(x)) if *x == b as i64), "i32 altered");
        core::mem::forget(r);
        let c: i64 = kani::any();
        let r = ValueSerializer.serialize_i64(c);
        assert!(matches!(&r, Ok(Value::Integer(x)) if *x == c), "i64 altered");
        core::mem::forget(r);
        let d: u32 = kani::any();
        let r: Result<Value, crate::de::Error> =
            serde::Deserialize::deserialize(serde::de::value::U32Deserializer::new(d));
        assert!(matches!(&r, Ok(Value::Integer(x)) if *x == d as i64), "u32 altered by the visitor");
        kani::cover!(r.is_ok());
        core::mem::forget(r);
    }
    // floats, bool and the remaining integer visitors: the value arrives unchanged, in the
    // variant of its type
    #[kani::proof]
    #[kani::unwind(8)]
    fn k6_toml_floats() {
        let v: f64 = kani::any();
        let r = ValueSerializer.serialize_f64(v);
        match &r {
            Ok(Value::Float(x)) => {
                if v.is_nan() {
                    assert!(x.is_nan() && x.is_sign_positive(), "NaN not kept as a positive NaN");
                } else {
                    assert!(x.to_bits() == v.to_bits(), "f64 altered");
                }
            }
            _ => assert!(false, "f64 not serialized to a float"),
        }
        kani::cover!(r.is_ok() && v.is_infinite());
        core::mem::forget(r);
        let w: f32 = kani::any();
        let r = ValueSerializer.serialize_f32(w);
        match &r {
            Ok(Value::Float(x)) => {
                if w.is_nan() {
                    assert!(x.is_nan(), "NaN not kept");
                } else {
                    assert!(x.to_bits() == (w as f64).to_bits(), "f32 altered");
                }
            }
            _ => assert!(false, "f32 not serialized to a float"),
        }
        core::mem::forget(r);
        let d: f64 = kani::any();
        let r: Result<Value, crate::de::Error> =
            serde::Deserialize::deserialize(serde::de::value::F64Deserializer::new(d));
        assert!(matches!(&r, Ok(Value::Float(x)) if x.to_bits() == d.to_bits()), "f64 altered by the visitor");
        kani::cover!(r.is_ok() && d.is_nan());
        core::mem::forget(r);
    }

    #[kani::proof]
    #[kani::unwind(8)]
    fn k6_toml_visit_rest() {
        let a: i64 = kani::any();
        let r: Result<Value, crate::de::Error> =
            serde::Deserialize::deserialize(serde::de::value::I64Deserializer::new(a));
        assert!(matches!(&r, Ok(Value::Integer(x)) if *x == a), "i64 altered by the visitor");
        kani::cover!(r.is_ok() && a < 0);
        core::mem::forget(r);
        let b: i32 = kani::any();
        let r: Result<Value, crate::de::Error> =
            serde::Deserialize::deserialize(serde::de::value::I32Deserializer::new(b));
        assert!(matches!(&r, Ok(Value::Integer(x)) if *x == b as i64), "i32 altered by the visitor");
        core::mem::forget(r);
        let c: bool = kani::any();
        let r: Result<Value, crate::de::Error> =
            serde::Deserialize::deserialize(serde::de::value::BoolDeserializer::new(c));
        assert!(matches!(&r, Ok(Value::Boolean(x)) if *x == c), "bool altered by the visitor");
        core::mem::forget(r);
        let r = ValueSerializer.serialize_bool(c);
        assert!(matches!(&r, Ok(Value::Boolean(x)) if *x == c), "bool altered");
        core::mem::forget(r);
    }
}
