// placeholder
