// K11: serde span bridge -- included at the end of crates/toml_edit/src/de/spanned.rs under cfg(kani)
mod verif_kani_spanned {
    use super::*;

    // SpannedDeserializer::new(v, a..b) driven by Spanned<i64>'s own Deserialize impl must
    // deliver exactly (a, b, v): nothing swapped, nothing altered, for every a, b, v.
    #[kani::proof]
    #[kani::unwind(48)]
    fn k11_span_bridge() {
        let a: usize = kani::any();
        let b: usize = kani::any();
        let v: i64 = kani::any();
        let de = SpannedDeserializer::new(v, a..b);
        let r: Result<serde_spanned::Spanned<i64>, Error> =
            serde::Deserialize::deserialize(serde::de::value::MapAccessDeserializer::new(de));
        match &r {
            Ok(s) => {
                assert!(s.span().start == a, "span start altered");
                assert!(s.span().end == b, "span end altered");
                assert!(*s.get_ref() == v, "value altered");
            }
            Err(_) => assert!(false, "span bridge failed"),
        }
        kani::cover!(r.is_ok());
        core::mem::forget(r);
    }
}
