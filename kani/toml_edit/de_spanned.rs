// K11: serde span bridge -- included at the end of crates/toml_edit/src/de/spanned.rs under cfg(kani)
mod verif_kani_spanned {
    use super::*;

    // SpannedDeserializer::new(v, a..b) driven by Spanned<i64>'s own Deserialize impl must
    // deliver exactly (a, b, v): nothing swapped, nothing altered, for every a, b, v.
    #[kani::proof]
    #[kani::unwind(48)]
    fn k11_span_bridge() {
        let a: usize = kani::any();
        let b: usize = kani::any();
        let v: i64 = kani::any();
        let de = SpannedDeserializer::new(v, a..b);
        let r: Result<serde_spanned::Spanned<i64>, Error> =
            serde::Deserialize::deserialize(serde::de::value::MapAccessDeserializer::new(de));
        match &r {
            Ok(s) => {
                assert!(s.span().start == a, "span start altered");
                assert!(s.span().end == b, "span end altered");
                assert!(*s.get_ref() == v, "value altered");
            }
            Err(_) => assert!(false, "span bridge failed"),
        }
        kani::cover!(r.is_ok());
        core::mem::forget(r);
    }

    // ------------------------------------------------------------------ K6d: narrowing on input
    // a TOML integer deserialized into a narrower Rust integer: Ok(x) => x == v; out of range => Err
    fn stub_format(_args: core::fmt::Arguments<'_>) -> String {
        String::new()
    }

    fn de_of(v: i64) -> crate::de::ValueDeserializer {
        crate::de::ValueDeserializer::new(crate::Item::Value(crate::Value::Integer(crate::Formatted::new(v))))
    }

    #[kani::proof]
    #[kani::unwind(8)]
    #[kani::stub(alloc::fmt::format, stub_format)]
    fn k6_de_narrow_u8() {
        let v: i64 = kani::any();
        let r: Result<u8, Error> = serde::Deserialize::deserialize(de_of(v));
        match &r {
            Ok(x) => assert!(*x as i64 == v, "integer altered when narrowed to u8"),
            Err(_) => assert!(v < 0 || v > u8::MAX as i64, "in-range integer rejected for u8"),
        }
        kani::cover!(r.is_ok());
        kani::cover!(r.is_err());
        core::mem::forget(r);
    }

    #[kani::proof]
    #[kani::unwind(8)]
    #[kani::stub(alloc::fmt::format, stub_format)]
    fn k6_de_narrow_i32() {
        let v: i64 = kani::any();
        let r: Result<i32, Error> = serde::Deserialize::deserialize(de_of(v));
        match &r {
            Ok(x) => assert!(*x as i64 == v, "integer altered when narrowed to i32"),
            Err(_) => assert!(v < i32::MIN as i64 || v > i32::MAX as i64, "in-range integer rejected for i32"),
        }
        kani::cover!(r.is_ok());
        kani::cover!(r.is_err());
        core::mem::forget(r);
    }

    #[kani::proof]
    #[kani::unwind(8)]
    #[kani::stub(alloc::fmt::format, stub_format)]
    fn k6_de_narrow_u64() {
        let v: i64 = kani::any();
        let r: Result<u64, Error> = serde::Deserialize::deserialize(de_of(v));
        match &r {
            Ok(x) => assert!(v >= 0 && *x == v as u64, "integer altered when converted to u64"),
            Err(_) => assert!(v < 0, "non-negative integer rejected for u64"),
        }
        kani::cover!(r.is_ok());
        kani::cover!(r.is_err());
        core::mem::forget(r);
    }
    // K11k: a map key delivered as Spanned<String>: exactly the key's span and the key's text
    #[kani::proof]
    #[kani::unwind(48)]
    fn k11_key_span_bridge() {
        let a: usize = kani::any();
        let b: usize = kani::any();
        let de = crate::de::KeyDeserializer::new(crate::Key::new("k"), Some(a..b));
        let r: Result<serde_spanned::Spanned<String>, Error> = serde::Deserialize::deserialize(de);
        match &r {
            Ok(s) => {
                assert!(s.span().start == a, "key span start altered");
                assert!(s.span().end == b, "key span end altered");
                assert!(s.get_ref().as_bytes() == b"k", "key text altered");
            }
            Err(_) => assert!(false, "spanned key rejected"),
        }
        kani::cover!(r.is_ok());
        core::mem::forget(r);
    }

    // K6d (floats, booleans): the tree -> serde step keeps the value bit for bit
    #[kani::proof]
    #[kani::unwind(8)]
    #[kani::stub(alloc::fmt::format, stub_format)]
    fn k6_de_float_bool() {
        let v: f64 = kani::any();
        let de = crate::de::ValueDeserializer::new(crate::Item::Value(crate::Value::Float(crate::Formatted::new(v))));
        let r: Result<f64, Error> = serde::Deserialize::deserialize(de);
        match &r {
            Ok(x) => assert!(x.to_bits() == v.to_bits(), "float altered on the way to serde"),
            Err(_) => assert!(false, "float rejected"),
        }
        kani::cover!(r.is_ok() && v.is_nan());
        core::mem::forget(r);
        let w: bool = kani::any();
        let de = crate::de::ValueDeserializer::new(crate::Item::Value(crate::Value::Boolean(crate::Formatted::new(w))));
        let r: Result<bool, Error> = serde::Deserialize::deserialize(de);
        match &r {
            Ok(x) => assert!(*x == w, "boolean altered on the way to serde"),
            Err(_) => assert!(false, "boolean rejected"),
        }
        core::mem::forget(r);
        let i: i64 = kani::any();
        let r: Result<i64, Error> = serde::Deserialize::deserialize(de_of(i));
        match &r {
            Ok(x) => assert!(*x == i, "integer altered on the way to serde"),
            Err(_) => assert!(false, "i64 rejected"),
        }
        core::mem::forget(r);
    }
}
