// K12: RecursionCheck / check_recursion -- included INSIDE `mod prelude` of
// crates/toml_edit/src/parser/mod.rs under cfg(kani) (private fields are in scope there)
mod verif_kani_prelude {
    use super::*;
    use winnow::error::ErrMode;

    #[kani::proof]
    #[kani::unwind(4)]
    fn k12_check_depth() {
        let d: usize = kani::any();
        let r = RecursionCheck::check_depth(d);
        assert!(LIMIT <= 128, "recursion limit is not a small constant");
        assert!(r.is_err() == (d >= LIMIT), "depth limit not enforced exactly at the bound");
        kani::cover!(r.is_ok());
        kani::cover!(r.is_err());
        core::mem::forget(r);
    }

    #[kani::proof]
    #[kani::unwind(4)]
    fn k12_enter_exit() {
        let c: usize = kani::any();
        kani::assume(c < usize::MAX);
        let mut rc = RecursionCheck { current: c };
        let r = rc.enter();
        assert!(rc.current == c + 1);
        assert!(r.is_ok() == (c + 1 < LIMIT), "limit not enforced exactly at the bound");
        if r.is_ok() {
            rc.exit();
            assert!(rc.current == c, "enter/exit not balanced");
        }
        kani::cover!(r.is_ok());
        kani::cover!(r.is_err());
        core::mem::forget(r);
    }

    // check_recursion(p): counter restored whether p succeeds or backtracks; a cut error exactly
    // when the limit is reached; p is not run in that case
    #[kani::proof]
    #[kani::unwind(8)]
    fn k12_check_recursion() {
        let c: usize = kani::any();
        kani::assume(c <= LIMIT);
        let inner_ok: bool = kani::any();
        let mut input = new_input("");
        input.state = RecursionCheck { current: c };
        let mut ran = false;
        let r = {
            let mut p = check_recursion(|_i: &mut Input<'_>| -> ModalResult<()> {
                ran = true;
                if inner_ok {
                    Ok(())
                } else {
                    Err(ErrMode::Backtrack(ContextError::new()))
                }
            });
            p.parse_next(&mut input)
        };
        if c + 1 < LIMIT {
            assert!(ran, "inner parser not run below the limit");
            assert!(input.state.current == c, "recursion counter not restored");
            assert!(r.is_ok() == inner_ok);
        } else {
            assert!(!ran, "inner parser run at the recursion limit");
            assert!(matches!(&r, Err(ErrMode::Cut(_))), "limit does not produce a cut error");
        }
        kani::cover!(c + 1 < LIMIT && inner_ok);
        kani::cover!(c + 1 < LIMIT && !inner_ok);
        kani::cover!(c + 1 >= LIMIT);
        core::mem::forget(r);
    }
}
