// K14s: table / array-of-tables span bookkeeping in ParseState -- included at the end of
// crates/toml_edit/src/parser/state.rs under cfg(kani)
mod verif_kani_state {
    use super::*;

    // see parser_value.rs: IndexMap's RandomState::new() is a syscall Kani cannot execute
    fn stub_random_state() -> std::hash::RandomState {
        unsafe { core::mem::transmute::<[u64; 2], std::hash::RandomState>([0u64; 2]) }
    }

    fn int_with_span(span: std::ops::Range<usize>) -> Item {
        let mut f = crate::Formatted::new(1i64);
        f.set_repr_unchecked(crate::Repr::new_unchecked(RawString::with_span(span)));
        Item::Value(crate::Value::Integer(f))
    }

    // on_keyval: the current table's span grows to the end of the value just added and keeps
    // its start; a value without span leaves it alone
    #[kani::proof]
    #[kani::unwind(12)]
    #[kani::stub(std::hash::RandomState::new, stub_random_state)]
    fn k14_on_keyval_span() {
        let h0: usize = kani::any();
        let h1: usize = kani::any();
        let v0: usize = kani::any();
        let v1: usize = kani::any();
        kani::assume(h0 <= h1 && h1 <= v0 && v0 < v1);
        let mut st = ParseState::new();
        st.current_table.span = Some(h0..h1);
        let r = st.on_keyval(Vec::new(), (Key::new("k"), int_with_span(v0..v1)));
        assert!(r.is_ok(), "first key of a table rejected");
        assert!(st.current_table.span == Some(h0..v1), "table span is not header start .. end of the last value");
        kani::cover!(true);
        core::mem::forget(st);
        core::mem::forget(r);
    }
    // a value without a span leaves the table span alone
    #[kani::proof]
    #[kani::unwind(12)]
    #[kani::stub(std::hash::RandomState::new, stub_random_state)]
    fn k14_on_keyval_no_span() {
        let h0: usize = kani::any();
        let h1: usize = kani::any();
        kani::assume(h0 <= h1);
        let mut st = ParseState::new();
        st.current_table.span = Some(h0..h1);
        let r = st.on_keyval(Vec::new(), (Key::new("k"), Item::Value(crate::Value::Integer(crate::Formatted::new(1i64)))));
        assert!(r.is_ok(), "first key of a table rejected");
        assert!(st.current_table.span == Some(h0..h1), "table span changed by a value without span");
        kani::cover!(true);
        core::mem::forget(st);
        core::mem::forget(r);
    }

    // [a] header: the new current table carries exactly the header's span, a fresh position, and
    // is not an array element
    #[kani::proof]
    #[kani::unwind(64)]
    #[kani::stub(std::hash::RandomState::new, stub_random_state)]
    fn k14_std_header_span() {
        let h0: usize = kani::any();
        let h1: usize = kani::any();
        kani::assume(h0 < h1);
        let mut st = ParseState::new();
        let before = st.current_table_position;
        let r = st.on_std_header(vec![Key::new("a")], h1..h1, h0..h1);
        assert!(r.is_ok(), "first header rejected");
        assert!(st.current_table.span == Some(h0..h1), "table span is not the header span");
        assert!(st.current_table_position == before + 1, "table position not advanced");
        assert!(!st.current_is_array, "std table marked as array element");
        assert!(st.current_table_path.len() == 1, "table path lost");
        kani::cover!(true);
        core::mem::forget(st);
        core::mem::forget(r);
    }

    // Dropped after measurement: the [[a]] header variant (on_array_header: 1200 s, no verdict).

    // a dotted key `a.k = v` extends the span of the table it is written in (the current
    // table), not only that of the implicit sub-table it lands in
    #[kani::proof]
    #[kani::unwind(64)]
    #[kani::stub(std::hash::RandomState::new, stub_random_state)]
    fn k14_on_keyval_dotted_span() {
        let h0: usize = kani::any();
        let h1: usize = kani::any();
        let v0: usize = kani::any();
        let v1: usize = kani::any();
        kani::assume(h0 <= h1 && h1 <= v0 && v0 < v1);
        let mut st = ParseState::new();
        st.current_table.span = Some(h0..h1);
        let r = st.on_keyval(vec![Key::new("a")], (Key::new("k"), int_with_span(v0..v1)));
        assert!(r.is_ok(), "dotted key rejected");
        assert!(st.current_table.span == Some(h0..v1), "table span not extended by a dotted key");
        kani::cover!(true);
        core::mem::forget(st);
        core::mem::forget(r);
    }

    // Dropped after measurement: the same key twice in one table -> DuplicateKey, first value kept
    // (900 s, no verdict: the error path clones the key and the table path).
}
