// K6: checked integer conversions of toml_edit::ser::ValueSerializer -- included at the end of
// crates/toml_edit/src/ser/value.rs under cfg(kani)
mod verif_kani_ser_value {
    use super::*;
    use serde::ser::Serializer as _;

    fn stub_format(_args: core::fmt::Arguments<'_>) -> String {
        String::new()
    }

    #[kani::proof]
    #[kani::unwind(8)]
    fn k6_edit_serialize_u64() {
        let v: u64 = kani::any();
        let r = ValueSerializer::new().serialize_u64(v);
        match &r {
            Ok(val) => {
                assert!(v <= i64::MAX as u64, "u64 beyond i64 serialized instead of rejected");
                assert!(val.as_integer() == Some(v as i64), "u64 value altered");
            }
            Err(_) => assert!(v > i64::MAX as u64, "u64 within i64 rejected"),
        }
        kani::cover!(r.is_ok());
        kani::cover!(r.is_err());
        core::mem::forget(r);
    }

    #[kani::proof]
    #[kani::unwind(8)]
    fn k6_edit_serialize_i64() {
        let v: i64 = kani::any();
        let r = ValueSerializer::new().serialize_i64(v);
        match &r {
            Ok(val) => assert!(val.as_integer() == Some(v), "i64 value altered"),
            Err(_) => assert!(false, "i64 rejected"),
        }
        kani::cover!(r.is_ok());
        core::mem::forget(r);
    }

    #[kani::proof]
    #[kani::unwind(8)]
    fn k6_edit_serialize_narrow() {
        let a: u32 = kani::any();
        let r = ValueSerializer::new().serialize_u32(a);
        match &r {
            Ok(val) => assert!(val.as_integer() == Some(a as i64), "u32 value altered"),
            Err(_) => assert!(false, "u32 rejected"),
        }
        core::mem::forget(r);
        let b: i32 = kani::any();
        let r = ValueSerializer::new().serialize_i32(b);
        match &r {
            Ok(val) => assert!(val.as_integer() == Some(b as i64), "i32 value altered"),
            Err(_) => assert!(false, "i32 rejected"),
        }
        core::mem::forget(r);
        let c: u16 = kani::any();
        let r = ValueSerializer::new().serialize_u16(c);
        match &r {
            Ok(val) => assert!(val.as_integer() == Some(c as i64), "u16 value altered"),
            Err(_) => assert!(false, "u16 rejected"),
        }
        core::mem::forget(r);
        let d: i16 = kani::any();
        let r = ValueSerializer::new().serialize_i16(d);
        match &r {
            Ok(val) => assert!(val.as_integer() == Some(d as i64), "i16 value altered"),
            Err(_) => assert!(false, "i16 rejected"),
        }
        core::mem::forget(r);
        let e: u8 = kani::any();
        let r = ValueSerializer::new().serialize_u8(e);
        match &r {
            Ok(val) => assert!(val.as_integer() == Some(e as i64), "u8 value altered"),
            Err(_) => assert!(false, "u8 rejected"),
        }
        core::mem::forget(r);
        let f: i8 = kani::any();
        let r = ValueSerializer::new().serialize_i8(f);
        match &r {
            Ok(val) => assert!(val.as_integer() == Some(f as i64), "i8 value altered"),
            Err(_) => assert!(false, "i8 rejected"),
        }
        kani::cover!(r.is_ok());
        core::mem::forget(r);
    }

    // 128-bit integers: serde's default (an error) must not be replaced by a lossy impl
    #[kani::proof]
    #[kani::unwind(8)]
    #[kani::stub(alloc::fmt::format, stub_format)]
    fn k6_edit_serialize_128() {
        let v: u128 = kani::any();
        let r = ValueSerializer::new().serialize_u128(v);
        match &r {
            Ok(val) => {
                assert!(v <= i64::MAX as u128, "u128 beyond i64 serialized");
                assert!(val.as_integer() == Some(v as i64), "u128 value altered");
            }
            Err(_) => {}
        }
        core::mem::forget(r);
        let w: i128 = kani::any();
        let r = ValueSerializer::new().serialize_i128(w);
        match &r {
            Ok(val) => {
                assert!(w >= i64::MIN as i128 && w <= i64::MAX as i128, "i128 beyond i64 serialized");
                assert!(val.as_integer() == Some(w as i64), "i128 value altered");
            }
            Err(_) => {}
        }
        kani::cover!(r.is_err());
        core::mem::forget(r);
    }
    // floats: every f64 is kept bit for bit (a NaN stays a NaN; its sign is documented as
    // discarded); every f32 widens exactly
    #[kani::proof]
    #[kani::unwind(8)]
    fn k6_edit_serialize_f64() {
        let v: f64 = kani::any();
        let r = ValueSerializer::new().serialize_f64(v);
        match &r {
            Ok(val) => match val.as_float() {
                Some(x) => {
                    if v.is_nan() {
                        assert!(x.is_nan(), "NaN serialized to a number");
                        assert!(x.is_sign_positive(), "NaN sign not normalised");
                    } else {
                        assert!(x.to_bits() == v.to_bits(), "f64 value altered");
                    }
                }
                None => assert!(false, "f64 serialized to a non-float"),
            },
            Err(_) => assert!(false, "f64 rejected"),
        }
        kani::cover!(r.is_ok() && v.is_nan());
        kani::cover!(r.is_ok() && v.is_infinite());
        kani::cover!(r.is_ok() && v == 0.0 && v.is_sign_negative());
        core::mem::forget(r);
    }

    #[kani::proof]
    #[kani::unwind(8)]
    fn k6_edit_serialize_f32() {
        let v: f32 = kani::any();
        let r = ValueSerializer::new().serialize_f32(v);
        match &r {
            Ok(val) => match val.as_float() {
                Some(x) => {
                    if v.is_nan() {
                        assert!(x.is_nan(), "NaN serialized to a number");
                    } else {
                        assert!(x.to_bits() == (v as f64).to_bits(), "f32 value altered");
                        assert!(x as f32 == v || v != v, "f32 does not narrow back");
                    }
                }
                None => assert!(false, "f32 serialized to a non-float"),
            },
            Err(_) => assert!(false, "f32 rejected"),
        }
        kani::cover!(r.is_ok() && !v.is_nan());
        core::mem::forget(r);
    }

    #[kani::proof]
    #[kani::unwind(8)]
    fn k6_edit_serialize_bool() {
        let v: bool = kani::any();
        let r = ValueSerializer::new().serialize_bool(v);
        match &r {
            Ok(val) => assert!(val.as_bool() == Some(v), "bool altered"),
            Err(_) => assert!(false, "bool rejected"),
        }
        kani::cover!(r.is_ok());
        core::mem::forget(r);
    }
}
