// K1 (date-time tables), K2 (leaf parsers) -- included at the end of parser/datetime.rs under cfg(kani)
mod verif_kani_datetime {
    use super::*;
    use winnow::stream::ContainsToken;
    #[allow(unused_imports)]
    use winnow::stream::Stream as _VerifStream;
    include!(concat!(env!("TOML_VERIF_KANI"), "/spec/oracles.rs"));

    #[kani::proof]
    fn k1_time_delim() {
        let b: u8 = kani::any();
        assert!(TIME_DELIM.contains_token(b) == o_class::time_delim(b));
        kani::cover!(TIME_DELIM.contains_token(b));
        kani::cover!(!TIME_DELIM.contains_token(b));
    }

    #[kani::proof]
    fn k1_dt_digit() {
        let b: u8 = kani::any();
        assert!(DIGIT.contains_token(b) == o_class::digit(b));
        // bytes accepted by this table reach `from_utf8_unchecked`: they must be ASCII (unsafe precondition)
        assert!(!DIGIT.contains_token(b) || b < 0x80, "table feeding from_utf8_unchecked admits a non-ASCII byte");
        kani::cover!(DIGIT.contains_token(b));
        kani::cover!(!DIGIT.contains_token(b));
    }

    // ------------------------------------------------------------------ K2: 2/4-digit field parsers
    fn stub_format(_args: core::fmt::Arguments<'_>) -> String {
        String::new()
    }

    fn input_of(bytes: &[u8]) -> Option<Input<'_>> {
        match core::str::from_utf8(bytes) {
            Ok(s) => Some(new_input(s)),
            Err(_) => None,
        }
    }

    /// Ok(v) <=> both bytes are digits and `ok(value)`; v == value; exactly two bytes consumed
    fn two_digit_field(
        parser: fn(&mut Input<'_>) -> ModalResult<u8>,
        ok: fn(u8) -> bool,
    ) {
        let buf: [u8; 3] = kani::any();
        let mut input = match input_of(&buf) {
            Some(i) => i,
            None => return,
        };
        let r = parser(&mut input);
        let want = match o_date::two(buf[0], buf[1]) {
            Some(v) if ok(v) => Some(v),
            _ => None,
        };
        match (&r, want) {
            (Ok(v), Some(w)) => {
                assert!(*v == w, "field value differs from the digits");
                assert!(input.eof_offset() == 1, "field consumed the wrong number of bytes");
            }
            (Err(_), None) => {}
            (Ok(_), None) => assert!(false, "field accepts a value outside its range or a non-digit"),
            (Err(_), Some(_)) => assert!(false, "field rejects a value inside its range"),
        }
        kani::cover!(r.is_ok());
        kani::cover!(r.is_err());
        core::mem::forget(r);
    }

    #[kani::proof]
    #[kani::unwind(8)]
    #[kani::stub(alloc::fmt::format, stub_format)]
    fn k2_date_month() { two_digit_field(date_month, |v| (1..=12).contains(&v)); }

    #[kani::proof]
    #[kani::unwind(8)]
    #[kani::stub(alloc::fmt::format, stub_format)]
    fn k2_date_mday() { two_digit_field(date_mday, |v| (1..=31).contains(&v)); }

    #[kani::proof]
    #[kani::unwind(8)]
    #[kani::stub(alloc::fmt::format, stub_format)]
    fn k2_time_hour() { two_digit_field(time_hour, |v| v <= 23); }

    #[kani::proof]
    #[kani::unwind(8)]
    #[kani::stub(alloc::fmt::format, stub_format)]
    fn k2_time_minute() { two_digit_field(time_minute, |v| v <= 59); }

    #[kani::proof]
    #[kani::unwind(8)]
    #[kani::stub(alloc::fmt::format, stub_format)]
    fn k2_time_second() { two_digit_field(time_second, |v| v <= 60); }

    #[kani::proof]
    #[kani::unwind(10)]
    #[kani::stub(alloc::fmt::format, stub_format)]
    fn k2_date_fullyear() {
        let buf: [u8; 5] = kani::any();
        let mut input = match input_of(&buf) {
            Some(i) => i,
            None => return,
        };
        let r = date_fullyear(&mut input);
        let want = o_date::four(buf[0], buf[1], buf[2], buf[3]);
        match (&r, want) {
            (Ok(v), Some(w)) => {
                assert!(*v == w, "year differs from the digits");
                assert!(input.eof_offset() == 1, "year consumed the wrong number of bytes");
            }
            (Err(_), None) => {}
            (Ok(_), None) => assert!(false, "year accepts non-digits"),
            (Err(_), Some(_)) => assert!(false, "year rejects four digits"),
        }
        kani::cover!(r.is_ok());
        kani::cover!(r.is_err());
        core::mem::forget(r);
    }

    // full-date on every well-shaped `dddd-dd-dd` (10^8 strings, built from symbolic numbers):
    // Ok <=> O-date valid_date, fields equal the digits.  The calendar rule in situ.
    #[kani::proof]
    #[kani::unwind(14)]
    #[kani::stub(alloc::fmt::format, stub_format)]
    fn k2_full_date_shaped() {
        let y: u16 = kani::any();
        let m: u8 = kani::any();
        let d: u8 = kani::any();
        kani::assume(y <= 9999 && m <= 99 && d <= 99);
        let buf: [u8; 11] = [
            b'0' + (y / 1000) as u8, b'0' + (y / 100 % 10) as u8, b'0' + (y / 10 % 10) as u8, b'0' + (y % 10) as u8,
            b'-', b'0' + m / 10, b'0' + m % 10, b'-', b'0' + d / 10, b'0' + d % 10, b' ',
        ];
        let mut input = match input_of(&buf) {
            Some(i) => i,
            None => return,
        };
        let r = full_date(&mut input);
        let want = o_date::valid_date(y, m, d);
        match &r {
            Ok(date) => {
                assert!(want, "full-date accepts a date that is not on the calendar");
                assert!(date.year == y && date.month == m && date.day == d, "full-date fields differ from the digits");
                assert!(input.eof_offset() == 1, "full-date consumed the wrong number of bytes");
            }
            Err(_) => assert!(!want, "full-date rejects a calendar date"),
        }
        kani::cover!(r.is_ok());
        kani::cover!(r.is_err());
        core::mem::forget(r);
    }

    // full-date in situ for four representative years (common, leap, century non-leap, 400-year
    // leap) and EVERY two-digit month and day: Ok <=> O-date valid_date.  Bounded in the year
    // (V4 proves the leap rule slice for all years); complete in month and day.
    fn full_date_year(y: u16) {
        let m: u8 = kani::any();
        let d: u8 = kani::any();
        kani::assume(m <= 99 && d <= 99);
        let buf: [u8; 11] = [
            b'0' + (y / 1000) as u8, b'0' + (y / 100 % 10) as u8, b'0' + (y / 10 % 10) as u8, b'0' + (y % 10) as u8,
            b'-', b'0' + m / 10, b'0' + m % 10, b'-', b'0' + d / 10, b'0' + d % 10, b' ',
        ];
        let mut input = match input_of(&buf) {
            Some(i) => i,
            None => return,
        };
        let r = full_date(&mut input);
        let want = o_date::valid_date(y, m, d);
        match &r {
            Ok(date) => {
                assert!(want, "full-date accepts a date that is not on the calendar");
                assert!(date.year == y && date.month == m && date.day == d, "full-date fields differ from the digits");
                assert!(input.eof_offset() == 1, "full-date consumed the wrong number of bytes");
            }
            Err(_) => assert!(!want, "full-date rejects a calendar date"),
        }
        kani::cover!(r.is_ok());
        kani::cover!(r.is_err());
        core::mem::forget(r);
    }

    #[kani::proof]
    #[kani::unwind(14)]
    #[kani::stub(alloc::fmt::format, stub_format)]
    fn k2_full_date_y2023() { full_date_year(2023); }
    #[kani::proof]
    #[kani::unwind(14)]
    #[kani::stub(alloc::fmt::format, stub_format)]
    fn k2_full_date_y2024() { full_date_year(2024); }
    #[kani::proof]
    #[kani::unwind(14)]
    #[kani::stub(alloc::fmt::format, stub_format)]
    fn k2_full_date_y1900() { full_date_year(1900); }
    #[kani::proof]
    #[kani::unwind(14)]
    #[kani::stub(alloc::fmt::format, stub_format)]
    fn k2_full_date_y2000() { full_date_year(2000); }
}
