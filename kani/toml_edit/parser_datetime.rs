// K1 (date-time tables), K2 (leaf parsers) -- included at the end of parser/datetime.rs under cfg(kani)
mod verif_kani_datetime {
    use super::*;
    use winnow::stream::ContainsToken;
    include!(concat!(env!("TOML_VERIF_KANI"), "/spec/oracles.rs"));

    #[kani::proof]
    fn k1_time_delim() {
        let b: u8 = kani::any();
        assert!(TIME_DELIM.contains_token(b) == o_class::time_delim(b));
        kani::cover!(TIME_DELIM.contains_token(b));
        kani::cover!(!TIME_DELIM.contains_token(b));
    }

    #[kani::proof]
    fn k1_dt_digit() {
        let b: u8 = kani::any();
        assert!(DIGIT.contains_token(b) == o_class::digit(b));
        kani::cover!(DIGIT.contains_token(b));
        kani::cover!(!DIGIT.contains_token(b));
    }
}
