// K1 (digit tables), K7 (float guard) -- included at the end of parser/numbers.rs under cfg(kani)
mod verif_kani_numbers {
    use super::*;
    use winnow::stream::ContainsToken;
    include!(concat!(env!("TOML_VERIF_KANI"), "/spec/oracles.rs"));

    #[kani::proof]
    fn k1_digit() {
        let b: u8 = kani::any();
        assert!(DIGIT.contains_token(b) == o_class::digit(b));
        kani::cover!(DIGIT.contains_token(b));
        kani::cover!(!DIGIT.contains_token(b));
    }

    #[kani::proof]
    fn k1_hexdig() {
        let b: u8 = kani::any();
        assert!(HEXDIG.contains_token(b) == o_class::hexdig(b));
        kani::cover!(HEXDIG.contains_token(b));
        kani::cover!(!HEXDIG.contains_token(b));
    }

    #[kani::proof]
    fn k1_digit1_9() {
        let b: u8 = kani::any();
        assert!(DIGIT1_9.contains_token(b) == o_class::digit1_9(b));
        kani::cover!(DIGIT1_9.contains_token(b));
        kani::cover!(!DIGIT1_9.contains_token(b));
    }

    #[kani::proof]
    fn k1_digit0_7() {
        let b: u8 = kani::any();
        assert!(DIGIT0_7.contains_token(b) == o_class::digit0_7(b));
        kani::cover!(DIGIT0_7.contains_token(b));
        kani::cover!(!DIGIT0_7.contains_token(b));
    }

    #[kani::proof]
    fn k1_digit0_1() {
        let b: u8 = kani::any();
        assert!(DIGIT0_1.contains_token(b) == o_class::digit0_1(b));
        kani::cover!(DIGIT0_1.contains_token(b));
        kani::cover!(!DIGIT0_1.contains_token(b));
    }

    // K7: the closure passed to `.verify(` in `float`, extracted verbatim on every run into
    // $TOML_VERIF_GEN/k7_float_guard.rs as `fn k7_guard() -> impl Fn(&f64) -> bool { <closure> }`
    include!(concat!(env!("TOML_VERIF_GEN"), "/k7_float_guard.rs"));

    #[kani::proof]
    fn k7_float_guard_rejects_both_infinities() {
        let f: f64 = kani::any();
        let guard = k7_guard();
        if guard(&f) {
            assert!(f != f64::INFINITY, "guard lets +inf through");
            assert!(f != f64::NEG_INFINITY, "guard lets -inf through");
        }
        kani::cover!(guard(&f));
        kani::cover!(!guard(&f));
    }

    // finite values and NaN must not be rejected by the guard (it may only refuse overflow)
    #[kani::proof]
    fn k7_float_guard_accepts_finite() {
        let f: f64 = kani::any();
        let guard = k7_guard();
        if f.is_finite() {
            assert!(guard(&f), "guard refuses a finite value");
        }
        kani::cover!(f.is_finite());
    }
}
