// K1 (digit tables), K7 (float guard) -- included at the end of parser/numbers.rs under cfg(kani)
mod verif_kani_numbers {
    use super::*;
    use winnow::stream::ContainsToken;
    #[allow(unused_imports)]
    use winnow::stream::Stream as _VerifStream;
    include!(concat!(env!("TOML_VERIF_KANI"), "/spec/oracles.rs"));

    #[kani::proof]
    fn k1_digit() {
        let b: u8 = kani::any();
        assert!(DIGIT.contains_token(b) == o_class::digit(b));
        // bytes accepted by this table reach `from_utf8_unchecked`: they must be ASCII (unsafe precondition)
        assert!(!DIGIT.contains_token(b) || b < 0x80, "table feeding from_utf8_unchecked admits a non-ASCII byte");
        kani::cover!(DIGIT.contains_token(b));
        kani::cover!(!DIGIT.contains_token(b));
    }

    #[kani::proof]
    fn k1_hexdig() {
        let b: u8 = kani::any();
        assert!(HEXDIG.contains_token(b) == o_class::hexdig(b));
        // bytes accepted by this table reach `from_utf8_unchecked`: they must be ASCII (unsafe precondition)
        assert!(!HEXDIG.contains_token(b) || b < 0x80, "table feeding from_utf8_unchecked admits a non-ASCII byte");
        kani::cover!(HEXDIG.contains_token(b));
        kani::cover!(!HEXDIG.contains_token(b));
    }

    #[kani::proof]
    fn k1_digit1_9() {
        let b: u8 = kani::any();
        assert!(DIGIT1_9.contains_token(b) == o_class::digit1_9(b));
        // bytes accepted by this table reach `from_utf8_unchecked`: they must be ASCII (unsafe precondition)
        assert!(!DIGIT1_9.contains_token(b) || b < 0x80, "table feeding from_utf8_unchecked admits a non-ASCII byte");
        kani::cover!(DIGIT1_9.contains_token(b));
        kani::cover!(!DIGIT1_9.contains_token(b));
    }

    #[kani::proof]
    fn k1_digit0_7() {
        let b: u8 = kani::any();
        assert!(DIGIT0_7.contains_token(b) == o_class::digit0_7(b));
        // bytes accepted by this table reach `from_utf8_unchecked`: they must be ASCII (unsafe precondition)
        assert!(!DIGIT0_7.contains_token(b) || b < 0x80, "table feeding from_utf8_unchecked admits a non-ASCII byte");
        kani::cover!(DIGIT0_7.contains_token(b));
        kani::cover!(!DIGIT0_7.contains_token(b));
    }

    #[kani::proof]
    fn k1_digit0_1() {
        let b: u8 = kani::any();
        assert!(DIGIT0_1.contains_token(b) == o_class::digit0_1(b));
        // bytes accepted by this table reach `from_utf8_unchecked`: they must be ASCII (unsafe precondition)
        assert!(!DIGIT0_1.contains_token(b) || b < 0x80, "table feeding from_utf8_unchecked admits a non-ASCII byte");
        kani::cover!(DIGIT0_1.contains_token(b));
        kani::cover!(!DIGIT0_1.contains_token(b));
    }

    // K7: the closure passed to `.verify(` in `float`, extracted verbatim on every run into
    // $TOML_VERIF_GEN/k7_float_guard.rs as `fn k7_guard() -> impl Fn(&f64) -> bool { <closure> }`
    include!(concat!(env!("TOML_VERIF_GEN"), "/k7_float_guard.rs"));

    #[kani::proof]
    fn k7_float_guard_rejects_both_infinities() {
        let f: f64 = kani::any();
        let guard = k7_guard();
        if guard(&f) {
            assert!(f != f64::INFINITY, "guard lets +inf through");
            assert!(f != f64::NEG_INFINITY, "guard lets -inf through");
        }
        kani::cover!(guard(&f));
        kani::cover!(!guard(&f));
    }

    // finite values and NaN must not be rejected by the guard (it may only refuse overflow)
    #[kani::proof]
    fn k7_float_guard_accepts_finite() {
        let f: f64 = kani::any();
        let guard = k7_guard();
        if f.is_finite() {
            assert!(guard(&f), "guard refuses a finite value");
        }
        kani::cover!(f.is_finite());
    }

    // ------------------------------------------------------------------ K10: integer literals at the i64 edge
    fn stub_format(_args: core::fmt::Arguments<'_>) -> String {
        String::new()
    }

    /// `prefix` + N symbolic digits of the given radix (no underscores, no sign), then end of input:
    /// Ok(v) <=> the mathematical value fits in i64, and then v is that value (O-int)
    fn prefixed<const N: usize, const M: usize>(prefix: &[u8; 2], radix: u32) {
        let digits: [u8; N] = kani::any();
        let mut buf = [0u8; M];
        buf[0] = prefix[0];
        buf[1] = prefix[1];
        let mut value: u128 = 0;
        let mut i = 0;
        while i < N {
            let d = match digits[i] {
                b'0'..=b'9' => (digits[i] - b'0') as u32,
                b'a'..=b'f' => (digits[i] - b'a') as u32 + 10,
                b'A'..=b'F' => (digits[i] - b'A') as u32 + 10,
                _ => 99,
            };
            kani::assume(d < radix);
            value = value * radix as u128 + d as u128;
            buf[2 + i] = digits[i];
            i += 1;
        }
        let text = match core::str::from_utf8(&buf) {
            Ok(t) => t,
            Err(_) => return,
        };
        let mut input = new_input(text);
        let r = integer(&mut input);
        match &r {
            Ok(v) => {
                assert!(value <= i64::MAX as u128, "an integer literal beyond i64 is accepted (wrapped or saturated)");
                assert!(*v as i128 == value as i128, "integer literal decodes to the wrong value");
                assert!(input.eof_offset() == 0, "integer literal not consumed entirely");
            }
            Err(_) => assert!(value > i64::MAX as u128, "an integer literal within i64 is rejected"),
        }
        kani::cover!(r.is_ok());
        kani::cover!(r.is_err());
        core::mem::forget(r);
    }

    #[kani::proof]
    #[kani::unwind(20)]
    #[kani::stub(alloc::fmt::format, stub_format)]
    fn k10_hex16() {
        prefixed::<16, 18>(b"0x", 16);
    }

    #[kani::proof]
    #[kani::unwind(26)]
    #[kani::stub(alloc::fmt::format, stub_format)]
    fn k10_oct22() {
        prefixed::<22, 24>(b"0o", 8);
    }

    #[kani::proof]
    #[kani::unwind(68)]
    #[kani::stub(alloc::fmt::format, stub_format)]
    fn k10_bin64() {
        prefixed::<64, 66>(b"0b", 2);
    }

    /// sign + 19 decimal digits (first digit 1-9): the i64 edge in base 10, both signs
    #[kani::proof]
    #[kani::unwind(24)]
    #[kani::stub(alloc::fmt::format, stub_format)]
    fn k10_dec19() {
        let digits: [u8; 19] = kani::any();
        let neg: bool = kani::any();
        let mut buf = [0u8; 20];
        buf[0] = if neg { b'-' } else { b'+' };
        let mut value: i128 = 0;
        let mut i = 0;
        while i < 19 {
            kani::assume(digits[i].is_ascii_digit());
            value = value * 10 + (digits[i] - b'0') as i128;
            buf[1 + i] = digits[i];
            i += 1;
        }
        kani::assume(digits[0] != b'0');
        if neg {
            value = -value;
        }
        let text = match core::str::from_utf8(&buf) {
            Ok(t) => t,
            Err(_) => return,
        };
        let mut input = new_input(text);
        let r = integer(&mut input);
        let fits = value >= i64::MIN as i128 && value <= i64::MAX as i128;
        match &r {
            Ok(v) => {
                assert!(fits, "a decimal literal beyond i64 is accepted (wrapped or saturated)");
                assert!(*v as i128 == value, "decimal literal decodes to the wrong value");
            }
            Err(_) => assert!(!fits, "a decimal literal within i64 is rejected"),
        }
        kani::cover!(r.is_ok());
        kani::cover!(r.is_err());
        core::mem::forget(r);
    }

    // ------------------------------------------------------------------ K10c: radix conversion closures
    // The closures passed to `.try_map(` after hex_int / oct_int / bin_int in `integer`, extracted
    // verbatim on every run into $TOML_VERIF_GEN/k10_int_closures.rs (no winnow in the loop):
    // Ok(v) <=> the mathematical value fits in i64, and then v is that value.
    include!(concat!(env!("TOML_VERIF_GEN"), "/k10_int_closures.rs"));

    fn conv_check<const N: usize>(conv: impl Fn(&str) -> Result<i64, core::num::ParseIntError>, radix: u32) {
        let digits: [u8; N] = kani::any();
        let mut value: u128 = 0;
        let mut i = 0;
        while i < N {
            let d = match digits[i] {
                b'0'..=b'9' => (digits[i] - b'0') as u32,
                b'a'..=b'f' => (digits[i] - b'a') as u32 + 10,
                b'A'..=b'F' => (digits[i] - b'A') as u32 + 10,
                _ => 99,
            };
            kani::assume(d < radix);
            value = value * radix as u128 + d as u128;
            i += 1;
        }
        let text = match core::str::from_utf8(&digits) {
            Ok(t) => t,
            Err(_) => return,
        };
        let r = conv(text);
        match &r {
            Ok(v) => {
                assert!(value <= i64::MAX as u128, "an integer literal beyond i64 is accepted (wrapped or saturated)");
                assert!(*v as i128 == value as i128, "integer literal decodes to the wrong value");
            }
            Err(_) => assert!(value > i64::MAX as u128, "an integer literal within i64 is rejected"),
        }
        kani::cover!(r.is_ok());
        kani::cover!(r.is_err());
        core::mem::forget(r);
    }

    #[kani::proof]
    #[kani::unwind(20)]
    fn k10c_hex16() { conv_check::<16>(k10_hex_int_conv(), 16); }

    #[kani::proof]
    #[kani::unwind(26)]
    fn k10c_oct22() { conv_check::<22>(k10_oct_int_conv(), 8); }

    // ------------------------------------------------------------------ K7s: special floats
    // special-float = [ minus / plus ] ( inf / nan ): the six spellings, through the real parser.
    // Complete (the production has exactly six strings): value class and sign bit.
    fn special(text: &str) -> Option<f64> {
        let mut input = new_input(text);
        let r = special_float(&mut input);
        let out = match &r {
            Ok(f) => {
                assert!(input.eof_offset() == 0, "special float not consumed entirely");
                Some(*f)
            }
            Err(_) => None,
        };
        core::mem::forget(r);
        out
    }

    #[kani::proof]
    #[kani::unwind(8)]
    #[kani::stub(alloc::fmt::format, stub_format)]
    fn k7s_inf() {
        let a = special("inf");
        let b = special("+inf");
        let c = special("-inf");
        assert!(a == Some(f64::INFINITY), "inf is not +infinity");
        assert!(b == Some(f64::INFINITY), "+inf is not +infinity");
        assert!(c == Some(f64::NEG_INFINITY), "-inf is not -infinity");
        kani::cover!(a.is_some());
    }

    #[kani::proof]
    #[kani::unwind(8)]
    #[kani::stub(alloc::fmt::format, stub_format)]
    fn k7s_nan() {
        let a = special("nan");
        let b = special("+nan");
        let c = special("-nan");
        assert!(matches!(a, Some(f) if f.is_nan() && f.is_sign_positive()), "nan is not a positive NaN");
        assert!(matches!(b, Some(f) if f.is_nan() && f.is_sign_positive()), "+nan is not a positive NaN");
        assert!(matches!(c, Some(f) if f.is_nan() && f.is_sign_negative()), "-nan is not a negative NaN");
        kani::cover!(a.is_some());
    }

    // ------------------------------------------------------------------ K10l: dec-int lexing, tiny tokens
    // dec_int on every valid-UTF-8 input of N bytes against the ABNF
    //   dec-int = [ minus / plus ] unsigned-dec-int
    //   unsigned-dec-int = DIGIT / digit1-9 1*( DIGIT / underscore DIGIT )
    // as a prefix matcher: Some(len) = longest prefix derivable with the parser's committed
    // choice (an underscore must be followed by a digit: hard error), None = no match.
    fn dec_int_oracle(s: &[u8]) -> Result<Option<usize>, ()> {
        let mut i = 0;
        if i < s.len() && (s[i] == b'+' || s[i] == b'-') { i += 1; }
        if i >= s.len() || !s[i].is_ascii_digit() { return Ok(None); }
        if s[i] == b'0' { return Ok(Some(i + 1)); }
        i += 1;
        loop {
            if i < s.len() && s[i].is_ascii_digit() { i += 1; continue; }
            if i < s.len() && s[i] == b'_' {
                if i + 1 < s.len() && s[i + 1].is_ascii_digit() { i += 2; continue; }
                return Err(());     // underscore not followed by a digit: cut error
            }
            return Ok(Some(i));
        }
    }

    fn dec_int_check<const N: usize>() {
        let buf: [u8; N] = kani::any();
        let text = match core::str::from_utf8(&buf) {
            Ok(t) => t,
            Err(_) => return,
        };
        let mut input = new_input(text);
        let r = dec_int(&mut input);
        let want = dec_int_oracle(&buf);
        match (&r, want) {
            (Ok(tok), Ok(Some(n))) => {
                assert!(tok.len() == n, "dec-int token has the wrong length");
                assert!(input.eof_offset() == N - n, "dec-int consumed the wrong number of bytes");
            }
            (Err(winnow::error::ErrMode::Backtrack(_)), Ok(None)) => {}
            (Err(winnow::error::ErrMode::Cut(_)), Err(())) => {}
            (Ok(_), _) => assert!(false, "dec-int accepts a token the grammar rejects"),
            (Err(_), _) => assert!(false, "dec-int rejects or mis-classifies a token of the grammar"),
        }
        kani::cover!(r.is_ok());
        kani::cover!(r.is_err());
        core::mem::forget(r);
    }

    #[kani::proof]
    #[kani::unwind(7)]
    #[kani::stub(alloc::fmt::format, stub_format)]
    fn k10l_dec_int3() { dec_int_check::<3>(); }
}
