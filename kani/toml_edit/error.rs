// K8: translate_position -- included at the end of crates/toml_edit/src/error.rs under cfg(kani).
// The contract itself sits on the function (cfg_attr(kani, kani::requires/ensures)); this file
// provides the predicates it names and the proof_for_contract harnesses.
pub(crate) mod verif_kani_error {
    include!(concat!(env!("TOML_VERIF_KANI"), "/spec/oracles.rs"));

    /// call-site invariant: the document is valid UTF-8 and the index (a span start produced by
    /// winnow's char_span) lies on a character boundary or at/after the end
    pub(crate) fn pre(input: &[u8], index: usize) -> bool {
        core::str::from_utf8(input).is_ok() && (index >= input.len() || (input[index] & 0xC0) != 0x80)
            && index <= input.len() + 1
    }

    /// O-pos: (line, character column), clamped at the end of input
    pub(crate) fn post(input: &[u8], index: usize, r: (usize, usize)) -> bool {
        r == o_pos::line_col(input, index)
    }
}

#[cfg(kani)]
mod verif_kani_error_harness {
    use super::*;

    fn run<const N: usize>() {
        let a: [u8; N] = kani::any();
        let index: usize = kani::any();
        let r = translate_position(&a, index);
        kani::cover!(r.0 > 0, "a position on a later line");
        kani::cover!(r.1 > 0, "a position in a later column");
    }

    #[kani::proof_for_contract(translate_position)]
    #[kani::unwind(3)]
    fn k8_contract_n0() { run::<0>(); }
    #[kani::proof_for_contract(translate_position)]
    #[kani::unwind(3)]
    fn k8_contract_n1() { run::<1>(); }
    #[kani::proof_for_contract(translate_position)]
    #[kani::unwind(4)]
    fn k8_contract_n2() { run::<2>(); }
    #[kani::proof_for_contract(translate_position)]
    #[kani::unwind(5)]
    fn k8_contract_n3() { run::<3>(); }
    #[kani::proof_for_contract(translate_position)]
    #[kani::unwind(6)]
    fn k8_contract_n4() { run::<4>(); }
    #[kani::proof_for_contract(translate_position)]
    #[kani::unwind(7)]
    fn k8_contract_n5() { run::<5>(); }

    // postcondition-harness form of the same contract (assume pre, call, assert post)
    fn run_post<const N: usize>() {
        let a: [u8; N] = kani::any();
        let index: usize = kani::any();
        kani::assume(verif_kani_error::pre(&a, index));
        let r = translate_position(&a, index);
        assert!(verif_kani_error::post(&a, index, r), "translate_position differs from (line, character column)");
        kani::cover!(r.0 > 0, "a position on a later line");
        kani::cover!(r.1 > 0, "a position in a later column");
    }

    // one byte: no later line exists, so only the column cover applies
    #[kani::proof]
    #[kani::unwind(3)]
    fn k8_post_n1() {
        let a: [u8; 1] = kani::any();
        let index: usize = kani::any();
        kani::assume(verif_kani_error::pre(&a, index));
        let r = translate_position(&a, index);
        assert!(verif_kani_error::post(&a, index, r), "translate_position differs from (line, character column)");
        kani::cover!(r.1 > 0, "a position in a later column");
    }
    #[kani::proof]
    #[kani::unwind(4)]
    fn k8_post_n2() { run_post::<2>(); }
    #[kani::proof]
    #[kani::unwind(5)]
    fn k8_post_n3() { run_post::<3>(); }
    #[kani::proof]
    #[kani::unwind(6)]
    fn k8_post_n4() { run_post::<4>(); }
    #[kani::proof]
    #[kani::unwind(7)]
    fn k8_post_n5() { run_post::<5>(); }

    // arbitrary bytes and indices (the contract's precondition dropped): no panic, no overflow
    #[kani::proof]
    #[kani::unwind(5)]
    fn k8_nopanic_n3() {
        let a: [u8; 3] = kani::any();
        let index: usize = kani::any();
        let r = translate_position(&a, index);
        kani::cover!(r.0 > 0);
    }

    // ------------------------------------------------------------------ K15: rendering never panics (tiny documents)
    // Display for TomlError on every valid-UTF-8 document of N bytes and every span
    // start <= end <= N with start on a character boundary: no panic (expect / subtraction /
    // slicing), through the real core::fmt.  Bounded: N bytes.
    fn render<const N: usize>() {
        let a: [u8; N] = kani::any();
        let raw = match core::str::from_utf8(&a) {
            Ok(s) => s,
            Err(_) => return,
        };
        let start: usize = kani::any();
        let end: usize = kani::any();
        kani::assume(start <= end && end <= N);
        kani::assume(start == N || (a[start] & 0xC0) != 0x80);
        let e = TomlError {
            message: String::new(),
            raw: Some(String::from(raw)),
            keys: Vec::new(),
            span: Some(start..end),
        };
        let text = e.to_string();
        kani::cover!(text.len() > 0);
        core::mem::forget(text);
        core::mem::forget(e);
    }

    #[kani::proof]
    #[kani::unwind(12)]
    fn k15_render_n1() { render::<1>(); }

    #[kani::proof]
    #[kani::unwind(14)]
    fn k15_render_n2() { render::<2>(); }
}
