// K14: span production (apply_raw), span storage (RawString) and span removal (despan) --
// included at the end of crates/toml_edit/src/parser/value.rs under cfg(kani)
mod verif_kani_value_spans {
    use super::*;

    fn any_span() -> std::ops::Range<usize> {
        let a: usize = kani::any();
        let b: usize = kani::any();
        kani::assume(a <= b);
        a..b
    }

    // the span apply_raw records is exactly the span it was given (an empty span is stored as
    // "no span": RawString::with_span), the value is untouched, the decor is empty
    fn expected(span: &std::ops::Range<usize>) -> Option<std::ops::Range<usize>> {
        if span.start == span.end {
            None
        } else {
            Some(span.clone())
        }
    }

    #[kani::proof]
    #[kani::unwind(8)]
    fn k14_apply_raw_integer() {
        let v: i64 = kani::any();
        let span = any_span();
        let out = apply_raw(Value::Integer(Formatted::new(v)), span.clone());
        assert!(out.span() == expected(&span), "integer span altered");
        assert!(out.as_integer() == Some(v), "integer value altered");
        assert!(out.decor().prefix().and_then(|p| p.as_str()) == Some(""), "prefix not cleared");
        assert!(out.decor().suffix().and_then(|p| p.as_str()) == Some(""), "suffix not cleared");
        kani::cover!(out.span().is_some());
        core::mem::forget(out);
    }

    #[kani::proof]
    #[kani::unwind(8)]
    fn k14_apply_raw_scalars() {
        let span = any_span();
        let f: f64 = kani::any();
        let out = apply_raw(Value::Float(Formatted::new(f)), span.clone());
        assert!(out.span() == expected(&span), "float span altered");
        assert!(out.as_float().map(|x| x.to_bits()) == Some(f.to_bits()), "float value altered");
        core::mem::forget(out);
        let b: bool = kani::any();
        let out = apply_raw(Value::Boolean(Formatted::new(b)), span.clone());
        assert!(out.span() == expected(&span), "boolean span altered");
        assert!(out.as_bool() == Some(b), "boolean value altered");
        core::mem::forget(out);
        let out = apply_raw(Value::String(Formatted::new(String::new())), span.clone());
        assert!(out.span() == expected(&span), "string span altered");
        kani::cover!(out.span().is_some());
        core::mem::forget(out);
    }

    #[kani::proof]
    #[kani::unwind(8)]
    fn k14_apply_raw_array() {
        let span = any_span();
        let out = apply_raw(Value::Array(crate::Array::new()), span.clone());
        assert!(out.span() == Some(span.clone()), "array span altered");
        kani::cover!(out.span().is_some());
        core::mem::forget(out);
    }

    // InlineTable::new() builds an IndexMap with std's RandomState, whose constructor reads
    // the OS random source (a syscall Kani cannot execute): stubbed by fixed keys -- hashing
    // plays no part in the span
    fn stub_random_state() -> std::hash::RandomState {
        unsafe { core::mem::transmute::<[u64; 2], std::hash::RandomState>([0u64; 2]) }
    }

    #[kani::proof]
    #[kani::unwind(8)]
    #[kani::stub(std::hash::RandomState::new, stub_random_state)]
    fn k14_apply_raw_inline_table() {
        let span = any_span();
        let out = apply_raw(Value::InlineTable(crate::InlineTable::new()), span.clone());
        assert!(out.span() == Some(span.clone()), "inline table span altered");
        kani::cover!(out.span().is_some());
        core::mem::forget(out);
    }

    // RawString: a stored span reads back the same; to_str / despan give exactly input[span]
    // (the same for 8-byte inputs in the thorough tier)
    #[kani::proof]
    #[kani::unwind(12)]
    fn k14_rawstring_despan_n8() {
        let bytes: [u8; 8] = kani::any();
        let mut i = 0;
        while i < 8 {
            kani::assume(bytes[i] < 0x80);
            i += 1;
        }
        let input = match core::str::from_utf8(&bytes) {
            Ok(s) => s,
            Err(_) => return,
        };
        let a: usize = kani::any();
        let b: usize = kani::any();
        kani::assume(a <= b && b <= 8);
        let mut raw = RawString::with_span(a..b);
        let text = raw.to_str(input);
        assert!(text.len() == b - a, "to_str length differs from the span");
        assert!(text.as_bytes() == &bytes[a..b], "to_str is not input[span]");
        raw.despan(input);
        assert!(raw.span().is_none(), "despan left a span behind");
        match raw.as_str() {
            Some(s) => assert!(s.as_bytes() == &bytes[a..b], "despan text is not input[span]"),
            None => assert!(false, "despan left no text"),
        }
        kani::cover!(a < b);
        core::mem::forget(raw);
    }

    // RawString: a stored span reads back the same; to_str / despan give exactly input[span]
    #[kani::proof]
    #[kani::unwind(8)]
    fn k14_rawstring_despan() {
        let bytes: [u8; 4] = kani::any();
        kani::assume(bytes[0] < 0x80 && bytes[1] < 0x80 && bytes[2] < 0x80 && bytes[3] < 0x80);
        let input = match core::str::from_utf8(&bytes) {
            Ok(s) => s,
            Err(_) => return,
        };
        let a: usize = kani::any();
        let b: usize = kani::any();
        kani::assume(a <= b && b <= 4);
        let mut raw = RawString::with_span(a..b);
        assert!(raw.span() == expected(&(a..b)), "stored span altered");
        let text = raw.to_str(input);
        assert!(text.len() == b - a, "to_str length differs from the span");
        assert!(text.as_bytes() == &bytes[a..b], "to_str is not input[span]");
        raw.despan(input);
        assert!(raw.span().is_none(), "despan left a span behind");
        match raw.as_str() {
            Some(s) => assert!(s.as_bytes() == &bytes[a..b], "despan text is not input[span]"),
            None => assert!(false, "despan left no text"),
        }
        kani::cover!(a < b);
        kani::cover!(a == b);
        core::mem::forget(raw);
    }
    // ------------------------------------------------------------------ K14d: despan
    // making a document editable: every container forgets its own span and those of its
    // children; a scalar forgets its span and keeps the spanned text
    fn ascii4() -> ([u8; 4], usize, usize) {
        let bytes: [u8; 4] = kani::any();
        kani::assume(bytes[0] < 0x80 && bytes[1] < 0x80 && bytes[2] < 0x80 && bytes[3] < 0x80);
        let a: usize = kani::any();
        let b: usize = kani::any();
        kani::assume(a < b && b <= 4);
        (bytes, a, b)
    }

    #[kani::proof]
    #[kani::unwind(8)]
    fn k14_despan_array() {
        let span = any_span();
        let mut arr = crate::Array::new();
        arr.span = Some(span.clone());
        arr.despan("");
        assert!(arr.span().is_none(), "array keeps its span after despan");
        let mut aot = crate::ArrayOfTables::new();
        aot.span = Some(span);
        aot.despan("");
        assert!(aot.span().is_none(), "array of tables keeps its span after despan");
        kani::cover!(true);
        core::mem::forget(arr);
        core::mem::forget(aot);
    }

    #[kani::proof]
    #[kani::unwind(8)]
    #[kani::stub(std::hash::RandomState::new, stub_random_state)]
    fn k14_despan_tables() {
        let span = any_span();
        let mut t = crate::Table::new();
        t.span = Some(span.clone());
        t.despan("");
        assert!(t.span().is_none(), "table keeps its span after despan");
        let mut it = crate::InlineTable::new();
        it.span = Some(span);
        it.despan("");
        assert!(it.span().is_none(), "inline table keeps its span after despan");
        kani::cover!(true);
        core::mem::forget(t);
        core::mem::forget(it);
    }

    #[kani::proof]
    #[kani::unwind(8)]
    fn k14_despan_scalar_and_item() {
        let (bytes, a, b) = ascii4();
        let input = match core::str::from_utf8(&bytes) {
            Ok(s) => s,
            Err(_) => return,
        };
        let v: i64 = kani::any();
        let mut val = apply_raw(Value::Integer(Formatted::new(v)), a..b);
        assert!(val.span() == Some(a..b));
        val.despan(input);
        assert!(val.span().is_none(), "scalar keeps its span after despan");
        assert!(val.as_integer() == Some(v), "despan altered the value");
        match &val {
            Value::Integer(f) => match f.as_repr().and_then(|r| r.as_raw().as_str()) {
                Some(s) => assert!(s.as_bytes() == &bytes[a..b], "despanned text is not input[span]"),
                None => assert!(false, "despan lost the text"),
            },
            _ => assert!(false),
        }
        let mut item = crate::Item::Value(apply_raw(Value::Integer(Formatted::new(v)), a..b));
        item.despan(input);
        assert!(item.span().is_none(), "item keeps its span after despan");
        kani::cover!(true);
        core::mem::forget(val);
        core::mem::forget(item);
    }

    // Dropped after measurement: an array holding one spanned element (900 s, no verdict: Vec growth
    // and the element's drop glue); the recursion into children is only covered for Item -> Value.

    // PROBE (not registered unless it terminates): table span = header start .. end of last value
    #[kani::proof]
    #[kani::unwind(64)]
    #[kani::stub(std::hash::RandomState::new, stub_random_state)]
    fn k14_probe_table_span() {
        let h0: usize = kani::any();
        let h1: usize = kani::any();
        let v0: usize = kani::any();
        let v1: usize = kani::any();
        kani::assume(h0 < h1 && h1 <= v0 && v0 < v1);
        let mut st = crate::parser::state::ParseState::new();
        let r = st.on_std_header(vec![crate::Key::new("a")], h1..h1, h0..h1);
        assert!(r.is_ok());
        let val = apply_raw(Value::Integer(Formatted::new(1)), v0..v1);
        let r = st.on_keyval(Vec::new(), (crate::Key::new("k"), crate::Item::Value(val)));
        assert!(r.is_ok());
        let doc = st.into_document(());
        match &doc {
            Ok(d) => {
                let t = d.root.as_table().and_then(|t| t.get("a")).and_then(|i| i.as_table());
                match t {
                    Some(t) => assert!(t.span() == Some(h0..v1), "table span is not header start .. last value end"),
                    None => assert!(false, "table a missing"),
                }
            }
            Err(_) => assert!(false, "document rejected"),
        }
        core::mem::forget(doc);
    }
}
