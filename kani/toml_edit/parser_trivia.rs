// K1 (trivia tables) -- included at the end of crates/toml_edit/src/parser/trivia.rs under cfg(kani)
mod verif_kani_trivia {
    use super::*;
    use winnow::stream::ContainsToken;
    include!(concat!(env!("TOML_VERIF_KANI"), "/spec/oracles.rs"));

    #[kani::proof]
    fn k1_wschar() {
        let b: u8 = kani::any();
        assert!(WSCHAR.contains_token(b) == o_class::wschar(b));
        // bytes accepted by this table reach `from_utf8_unchecked`: they must be ASCII (unsafe precondition)
        assert!(!WSCHAR.contains_token(b) || b < 0x80, "table feeding from_utf8_unchecked admits a non-ASCII byte");
        kani::cover!(WSCHAR.contains_token(b));
        kani::cover!(!WSCHAR.contains_token(b));
    }

    #[kani::proof]
    fn k1_non_ascii() {
        let b: u8 = kani::any();
        assert!(NON_ASCII.contains_token(b) == o_class::non_ascii(b));
        kani::cover!(NON_ASCII.contains_token(b));
        kani::cover!(!NON_ASCII.contains_token(b));
    }

    #[kani::proof]
    fn k1_non_eol() {
        let b: u8 = kani::any();
        assert!(NON_EOL.contains_token(b) == o_class::non_eol(b));
        kani::cover!(NON_EOL.contains_token(b));
        kani::cover!(!NON_EOL.contains_token(b));
    }

    // ------------------------------------------------------------------ K9: whitespace / newline runs
    // ws, newline, ws_newline, ws_newlines in situ on every N-byte input: the number of bytes taken
    // is the longest run of the ABNF (`ws = *wschar`, `newline = LF / CRLF`,
    // `ws-newline = *( wschar / newline )`, `ws-newlines = newline ws-newline`).
    // Bounded: input length N (the run can be arbitrarily long).
    fn stub_format(_args: core::fmt::Arguments<'_>) -> String {
        String::new()
    }

    fn o_nl_len(b: &[u8], i: usize) -> usize {
        if i < b.len() && b[i] == b'\n' {
            1
        } else if i + 1 < b.len() && b[i] == b'\r' && b[i + 1] == b'\n' {
            2
        } else {
            0
        }
    }

    fn o_ws_len(b: &[u8], from: usize) -> usize {
        let mut i = from;
        while i < b.len() && o_class::wschar(b[i]) {
            i += 1;
        }
        i - from
    }

    fn o_ws_newline_len(b: &[u8], from: usize) -> usize {
        let mut i = from;
        while i < b.len() {
            if o_class::wschar(b[i]) {
                i += 1;
            } else {
                let n = o_nl_len(b, i);
                if n == 0 {
                    break;
                }
                i += n;
            }
        }
        i - from
    }

    fn k9_input<const K9_N: usize>(buf: &[u8; K9_N]) -> Option<Input<'_>> {
        match core::str::from_utf8(buf) {
            Ok(s) => Some(new_input(s)),
            Err(_) => None,
        }
    }

    fn k9_ws_n<const K9_N: usize>() {
        let buf: [u8; K9_N] = kani::any();
        let mut input = match k9_input(&buf) {
            Some(i) => i,
            None => return,
        };
        let r = ws(&mut input);
        let want = o_ws_len(&buf, 0);
        match &r {
            Ok(s) => {
                assert!(s.len() == want, "ws returned a run of the wrong length");
                assert!(K9_N - input.eof_offset() == want, "ws consumed the wrong number of bytes");
            }
            Err(_) => assert!(false, "ws = *wschar cannot fail"),
        }
        kani::cover!(want == 0);
        kani::cover!(want == K9_N);
        kani::cover!(want == 1 && buf[0] == b'\t');
        core::mem::forget(r);
    }

    fn k9_newline_n<const K9_N: usize>() {
        let buf: [u8; K9_N] = kani::any();
        let mut input = match k9_input(&buf) {
            Some(i) => i,
            None => return,
        };
        let r = newline(&mut input);
        let want = o_nl_len(&buf, 0);
        match &r {
            Ok(()) => {
                assert!(want > 0, "newline accepts something that is neither LF nor CR LF");
                assert!(K9_N - input.eof_offset() == want, "newline consumed the wrong number of bytes");
            }
            Err(_) => assert!(want == 0, "newline rejects LF or CR LF"),
        }
        kani::cover!(want == 1);
        kani::cover!(want == 2);
        kani::cover!(want == 0 && buf[0] == b'\r');
        core::mem::forget(r);
    }

    fn k9_ws_newline_n<const K9_N: usize>() {
        let buf: [u8; K9_N] = kani::any();
        let mut input = match k9_input(&buf) {
            Some(i) => i,
            None => return,
        };
        let r = ws_newline(&mut input);
        let want = o_ws_newline_len(&buf, 0);
        match &r {
            Ok(()) => assert!(
                K9_N - input.eof_offset() == want,
                "ws_newline did not take exactly the longest run of wschar / newline"
            ),
            Err(_) => assert!(false, "ws-newline = *( wschar / newline ) cannot fail"),
        }
        kani::cover!(want == 0);
        kani::cover!(want == K9_N);
        kani::cover!(want == 2 && buf[0] == b'\t' && buf[1] == b'\n');
        kani::cover!(want == 1 && buf[1] == b'\r');
        core::mem::forget(r);
    }

    fn k9_ws_newlines_n<const K9_N: usize>() {
        let buf: [u8; K9_N] = kani::any();
        let mut input = match k9_input(&buf) {
            Some(i) => i,
            None => return,
        };
        let r = ws_newlines(&mut input);
        let nl = o_nl_len(&buf, 0);
        match &r {
            Ok(()) => {
                assert!(nl > 0, "ws_newlines accepts text that does not start with a newline");
                assert!(
                    K9_N - input.eof_offset() == nl + o_ws_newline_len(&buf, nl),
                    "ws_newlines did not take newline + the longest run of wschar / newline"
                );
            }
            Err(_) => assert!(nl == 0, "ws_newlines rejects text that starts with a newline"),
        }
        kani::cover!(nl == 0);
        kani::cover!(nl == 1 && o_ws_newline_len(&buf, 1) == K9_N - 1);
        kani::cover!(nl == 2);
        core::mem::forget(r);
    }

    #[kani::proof]
    #[kani::unwind(8)]
    #[kani::stub(alloc::fmt::format, stub_format)]
    fn k9_ws_n2() { k9_ws_n::<2>(); }

    #[kani::proof]
    #[kani::unwind(8)]
    #[kani::stub(alloc::fmt::format, stub_format)]
    fn k9_ws_n3() { k9_ws_n::<3>(); }

    #[kani::proof]
    #[kani::unwind(8)]
    #[kani::stub(alloc::fmt::format, stub_format)]
    fn k9_newline_n2() { k9_newline_n::<2>(); }

    #[kani::proof]
    #[kani::unwind(8)]
    #[kani::stub(alloc::fmt::format, stub_format)]
    fn k9_newline_n3() { k9_newline_n::<3>(); }

    #[kani::proof]
    #[kani::unwind(8)]
    #[kani::stub(alloc::fmt::format, stub_format)]
    fn k9_ws_newline_n2() { k9_ws_newline_n::<2>(); }

    #[kani::proof]
    #[kani::unwind(8)]
    #[kani::stub(alloc::fmt::format, stub_format)]
    fn k9_ws_newline_n3() { k9_ws_newline_n::<3>(); }

    #[kani::proof]
    #[kani::unwind(8)]
    #[kani::stub(alloc::fmt::format, stub_format)]
    fn k9_ws_newlines_n2() { k9_ws_newlines_n::<2>(); }

    #[kani::proof]
    #[kani::unwind(8)]
    #[kani::stub(alloc::fmt::format, stub_format)]
    fn k9_ws_newlines_n3() { k9_ws_newlines_n::<3>(); }
}
