// K1 (trivia tables) -- included at the end of crates/toml_edit/src/parser/trivia.rs under cfg(kani)
mod verif_kani_trivia {
    use super::*;
    use winnow::stream::ContainsToken;
    include!(concat!(env!("TOML_VERIF_KANI"), "/spec/oracles.rs"));

    #[kani::proof]
    fn k1_wschar() {
        let b: u8 = kani::any();
        assert!(WSCHAR.contains_token(b) == o_class::wschar(b));
        // bytes accepted by this table reach `from_utf8_unchecked`: they must be ASCII (unsafe precondition)
        assert!(!WSCHAR.contains_token(b) || b < 0x80, "table feeding from_utf8_unchecked admits a non-ASCII byte");
        kani::cover!(WSCHAR.contains_token(b));
        kani::cover!(!WSCHAR.contains_token(b));
    }

    #[kani::proof]
    fn k1_non_ascii() {
        let b: u8 = kani::any();
        assert!(NON_ASCII.contains_token(b) == o_class::non_ascii(b));
        kani::cover!(NON_ASCII.contains_token(b));
        kani::cover!(!NON_ASCII.contains_token(b));
    }

    #[kani::proof]
    fn k1_non_eol() {
        let b: u8 = kani::any();
        assert!(NON_EOL.contains_token(b) == o_class::non_eol(b));
        kani::cover!(NON_EOL.contains_token(b));
        kani::cover!(!NON_EOL.contains_token(b));
    }
}
