// K1 (string tables), K5 (escapes) -- included at the end of parser/strings.rs under cfg(kani)
mod verif_kani_strings {
    use super::*;
    use winnow::stream::ContainsToken;
    include!(concat!(env!("TOML_VERIF_KANI"), "/spec/oracles.rs"));

    #[kani::proof]
    fn k1_basic_unescaped() {
        let b: u8 = kani::any();
        assert!(BASIC_UNESCAPED.contains_token(b) == o_class::basic_unescaped(b));
        kani::cover!(BASIC_UNESCAPED.contains_token(b));
        kani::cover!(!BASIC_UNESCAPED.contains_token(b));
    }

    #[kani::proof]
    fn k1_mlb_unescaped() {
        let b: u8 = kani::any();
        assert!(MLB_UNESCAPED.contains_token(b) == o_class::basic_unescaped(b));
        kani::cover!(MLB_UNESCAPED.contains_token(b));
        kani::cover!(!MLB_UNESCAPED.contains_token(b));
    }

    #[kani::proof]
    fn k1_literal_char() {
        let b: u8 = kani::any();
        assert!(LITERAL_CHAR.contains_token(b) == o_class::literal_char(b));
        kani::cover!(LITERAL_CHAR.contains_token(b));
        kani::cover!(!LITERAL_CHAR.contains_token(b));
    }

    #[kani::proof]
    fn k1_mll_char() {
        let b: u8 = kani::any();
        assert!(MLL_CHAR.contains_token(b) == o_class::literal_char(b));
        kani::cover!(MLL_CHAR.contains_token(b));
        kani::cover!(!MLL_CHAR.contains_token(b));
    }

    #[kani::proof]
    fn k1_string_delims() {
        assert!(QUOTATION_MARK == 0x22 && APOSTROPHE == 0x27 && ESCAPE == 0x5c);
        assert!(ML_BASIC_STRING_DELIM.len() == 3 && ML_BASIC_STRING_DELIM[0] == 0x22
            && ML_BASIC_STRING_DELIM[1] == 0x22 && ML_BASIC_STRING_DELIM[2] == 0x22);
        assert!(ML_LITERAL_STRING_DELIM.len() == 3 && ML_LITERAL_STRING_DELIM[0] == 0x27
            && ML_LITERAL_STRING_DELIM[1] == 0x27 && ML_LITERAL_STRING_DELIM[2] == 0x27);
        kani::cover!(true);
    }
}
