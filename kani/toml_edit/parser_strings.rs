// K1 (string tables), K5 (escapes) -- included at the end of parser/strings.rs under cfg(kani)
mod verif_kani_strings {
    use super::*;
    use winnow::stream::ContainsToken;
    #[allow(unused_imports)]
    use winnow::stream::Stream as _VerifStream;
    include!(concat!(env!("TOML_VERIF_KANI"), "/spec/oracles.rs"));

    #[kani::proof]
    fn k1_basic_unescaped() {
        let b: u8 = kani::any();
        assert!(BASIC_UNESCAPED.contains_token(b) == o_class::basic_unescaped(b));
        kani::cover!(BASIC_UNESCAPED.contains_token(b));
        kani::cover!(!BASIC_UNESCAPED.contains_token(b));
    }

    #[kani::proof]
    fn k1_mlb_unescaped() {
        let b: u8 = kani::any();
        assert!(MLB_UNESCAPED.contains_token(b) == o_class::basic_unescaped(b));
        kani::cover!(MLB_UNESCAPED.contains_token(b));
        kani::cover!(!MLB_UNESCAPED.contains_token(b));
    }

    #[kani::proof]
    fn k1_literal_char() {
        let b: u8 = kani::any();
        assert!(LITERAL_CHAR.contains_token(b) == o_class::literal_char(b));
        kani::cover!(LITERAL_CHAR.contains_token(b));
        kani::cover!(!LITERAL_CHAR.contains_token(b));
    }

    #[kani::proof]
    fn k1_mll_char() {
        let b: u8 = kani::any();
        assert!(MLL_CHAR.contains_token(b) == o_class::literal_char(b));
        kani::cover!(MLL_CHAR.contains_token(b));
        kani::cover!(!MLL_CHAR.contains_token(b));
    }

    #[kani::proof]
    fn k1_string_delims() {
        assert!(QUOTATION_MARK == 0x22 && APOSTROPHE == 0x27 && ESCAPE == 0x5c);
        assert!(ML_BASIC_STRING_DELIM.len() == 3 && ML_BASIC_STRING_DELIM[0] == 0x22
            && ML_BASIC_STRING_DELIM[1] == 0x22 && ML_BASIC_STRING_DELIM[2] == 0x22);
        assert!(ML_LITERAL_STRING_DELIM.len() == 3 && ML_LITERAL_STRING_DELIM[0] == 0x27
            && ML_LITERAL_STRING_DELIM[1] == 0x27 && ML_LITERAL_STRING_DELIM[2] == 0x27);
        kani::cover!(true);
    }

    // ------------------------------------------------------------------ K5: escapes
    fn stub_format(_args: core::fmt::Arguments<'_>) -> String {
        String::new()
    }

    fn input_of(bytes: &[u8]) -> Option<Input<'_>> {
        match core::str::from_utf8(bytes) {
            Ok(s) => Some(new_input(s)),
            Err(_) => None,
        }
    }

    // escape-seq-char on one byte other than `u` / `U` (those are k5_hexescape*):
    // Ok(O-esc value) for the seven letters, a cut error otherwise; exactly one byte consumed
    #[kani::proof]
    #[kani::unwind(12)]
    #[kani::stub(alloc::fmt::format, stub_format)]
    fn k5_escape_seq_char() {
        let b: u8 = kani::any();
        kani::assume(b != b'u' && b != b'U');
        let buf = [b, b'x'];
        let mut input = match input_of(&buf) {
            Some(i) => i,
            None => return,
        };
        let r = escape_seq_char(&mut input);
        let want = o_esc::escape_value(b);
        match (&r, want) {
            (Ok(c), Some(w)) => {
                assert!(*c == w, "escape decodes to the wrong character");
                assert!(input.eof_offset() == 1, "escape consumed the wrong number of bytes");
            }
            (Err(winnow::error::ErrMode::Cut(_)), None) => {}
            (Ok(_), None) => assert!(false, "an undefined escape letter is accepted"),
            (Err(_), Some(_)) => assert!(false, "a defined escape letter is rejected"),
            (Err(_), None) => assert!(false, "an undefined escape is not a hard error"),
        }
        kani::cover!(r.is_ok());
        kani::cover!(r.is_err());
        core::mem::forget(r);
    }

    // the accepting half of escape-seq-char, letter by letter (concrete first byte: CBMC follows
    // one dispatch arm; the symbolic version above crashes on the error arm): each of the seven
    // one-letter escapes decodes to its O-esc value and consumes exactly one byte
    fn escape_letter(b: u8) {
        let next: u8 = kani::any();
        kani::assume(next < 0x80);
        let buf = [b, next];
        let mut input = match input_of(&buf) {
            Some(i) => i,
            None => return,
        };
        let r = escape_seq_char(&mut input);
        match (&r, o_esc::escape_value(b)) {
            (Ok(c), Some(w)) => {
                assert!(*c == w, "escape decodes to the wrong character");
                assert!(input.eof_offset() == 1, "escape consumed the wrong number of bytes");
            }
            _ => assert!(false, "a defined escape letter is rejected"),
        }
        kani::cover!(r.is_ok());
        core::mem::forget(r);
    }

    #[kani::proof]
    #[kani::unwind(12)]
    #[kani::stub(alloc::fmt::format, stub_format)]
    fn k5_escape_letters() {
        escape_letter(b'b');
        escape_letter(b'f');
        escape_letter(b'n');
        escape_letter(b'r');
        escape_letter(b't');
        escape_letter(b'\\');
        escape_letter(b'"');
    }

    fn hexescape_check<const N: usize, const M: usize>() {
        // M == N + 1: N candidate digits and one byte of lookahead
        let buf: [u8; M] = kani::any();
        let mut input = match input_of(&buf) {
            Some(i) => i,
            None => return,
        };
        let r = hexescape::<N>(&mut input);
        let want = o_esc::hex_scalar(&buf[..N]);
        match (&r, want) {
            (Ok(c), Some(w)) => {
                assert!(*c as u32 == w, "hex escape decodes to the wrong scalar value");
                assert!(input.eof_offset() == M - N, "hex escape consumed the wrong number of bytes");
            }
            (Err(_), None) => {}
            (Ok(_), None) => assert!(false, "hex escape accepted: not N hex digits, a surrogate or beyond 10FFFF"),
            (Err(_), Some(_)) => assert!(false, "a valid hex escape is rejected"),
        }
        kani::cover!(r.is_ok());
        kani::cover!(r.is_err());
        core::mem::forget(r);
    }

    #[kani::proof]
    #[kani::unwind(12)]
    #[kani::stub(alloc::fmt::format, stub_format)]
    fn k5_hexescape4() {
        hexescape_check::<4, 5>();
    }

    #[kani::proof]
    #[kani::unwind(16)]
    #[kani::stub(alloc::fmt::format, stub_format)]
    fn k5_hexescape8() {
        hexescape_check::<8, 9>();
    }

    // ------------------------------------------------------------------ K13: parser <-> O-str, tiny tokens
    // basic_string on every valid-UTF-8 input of N bytes: accepts exactly when the input starts
    // with a basic-string token of the grammar (O-str dec_basic_prefix), decodes to the same bytes
    // and consumes exactly the token.  Bounded: N bytes.
    fn basic_check<const N: usize>() {
        let buf: [u8; N] = kani::any();
        let mut input = match input_of(&buf) {
            Some(i) => i,
            None => return,
        };
        let r = basic_string(&mut input);
        let want = o_str::dec_basic_prefix(&buf);
        match (&r, &want) {
            (Ok(got), Some((w, used))) => {
                assert!(got.as_bytes() == &w[..], "basic string decodes to different bytes");
                assert!(input.eof_offset() == N - *used, "basic string consumed the wrong number of bytes");
            }
            (Err(_), None) => {}
            (Ok(_), None) => assert!(false, "parser accepts a token the basic-string grammar rejects"),
            (Err(_), Some(_)) => assert!(false, "parser rejects a token of the basic-string grammar"),
        }
        kani::cover!(r.is_ok());
        kani::cover!(r.is_err());
        core::mem::forget(r);
        core::mem::forget(want);
    }

    #[kani::proof]
    #[kani::unwind(8)]
    #[kani::stub(alloc::fmt::format, stub_format)]
    fn k13_basic3() { basic_check::<3>(); }

    #[kani::proof]
    #[kani::unwind(9)]
    #[kani::stub(alloc::fmt::format, stub_format)]
    fn k13_basic4() { basic_check::<4>(); }

    // ------------------------------------------------------------------ K9m: line-ending backslash
    // mlb-escaped-nl = 1*( escape ws newline *( wschar / newline ) ) in situ on every N-byte input:
    // Ok <=> at least one such group; bytes taken = all complete groups (oracle from the ABNF).
    fn o9_nl_len(b: &[u8], i: usize) -> usize {
        if i < b.len() && b[i] == b'\n' {
            1
        } else if i + 1 < b.len() && b[i] == b'\r' && b[i + 1] == b'\n' {
            2
        } else {
            0
        }
    }

    fn o9_mlb_escaped_nl(b: &[u8]) -> Option<usize> {
        let mut i = 0;
        let mut any = false;
        loop {
            if i >= b.len() || b[i] != b'\\' {
                break;
            }
            let mut j = i + 1;
            while j < b.len() && o_class::wschar(b[j]) {
                j += 1;
            }
            let nl = o9_nl_len(b, j);
            if nl == 0 {
                break;
            }
            j += nl;
            while j < b.len() {
                if o_class::wschar(b[j]) {
                    j += 1;
                } else {
                    let n = o9_nl_len(b, j);
                    if n == 0 {
                        break;
                    }
                    j += n;
                }
            }
            i = j;
            any = true;
        }
        if any {
            Some(i)
        } else {
            None
        }
    }

    fn k9_mlb_escaped_nl_n<const N: usize>() {
        let buf: [u8; N] = kani::any();
        let mut input = match core::str::from_utf8(&buf) {
            Ok(s) => new_input(s),
            Err(_) => return,
        };
        let r = mlb_escaped_nl(&mut input);
        let want = o9_mlb_escaped_nl(&buf);
        match (&r, want) {
            (Ok(()), Some(n)) => assert!(
                N - input.eof_offset() == n,
                "line-ending backslash did not swallow exactly backslash, ws, newline and the following wschar / newline run"
            ),
            (Err(_), None) => {}
            (Ok(()), None) => assert!(false, "mlb_escaped_nl accepts a backslash that is not followed by ws newline"),
            (Err(_), Some(_)) => assert!(false, "mlb_escaped_nl rejects backslash ws newline"),
        }
        kani::cover!(want == Some(N));
        kani::cover!(want == Some(2));
        kani::cover!(want.is_none() && buf[0] == b'\\');
        kani::cover!(want == Some(N) && buf[1] == b'\t');
        core::mem::forget(r);
    }

    #[kani::proof]
    #[kani::unwind(8)]
    #[kani::stub(alloc::fmt::format, stub_format)]
    fn k9_mlb_escaped_nl_n3() { k9_mlb_escaped_nl_n::<3>(); }
}
