// K1 (unquoted-key table) -- included at the end of parser/key.rs under cfg(kani)
mod verif_kani_key {
    use super::*;
    use winnow::stream::ContainsToken;
    include!(concat!(env!("TOML_VERIF_KANI"), "/spec/oracles.rs"));

    #[kani::proof]
    fn k1_unquoted_char() {
        let b: u8 = kani::any();
        assert!(UNQUOTED_CHAR.contains_token(b) == o_class::unquoted_char(b));
        assert!(DOT_SEP == 0x2e);
        // bytes accepted by this table reach `from_utf8_unchecked`: they must be ASCII (unsafe precondition)
        assert!(!UNQUOTED_CHAR.contains_token(b) || b < 0x80, "table feeding from_utf8_unchecked admits a non-ASCII byte");
        kani::cover!(UNQUOTED_CHAR.contains_token(b));
        kani::cover!(!UNQUOTED_CHAR.contains_token(b));
    }
}
