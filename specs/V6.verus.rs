// Contracts for unit V6: the date-time printer (Display for Date / Time / Offset / Datetime in
// crates/toml_datetime/src/datetime.rs) -> C12 (printer clause), C04
//@ header
#![allow(unused_imports, dead_code, unused_variables, unused_mut, unused_assignments)]
use vstd::prelude::*;
use vstd::string::*;
use core::fmt;

//@ prelude
// ghost writer over characters; its methods are the assumed effect of core::fmt (rule R1)
struct VWriter { out: Vec<char> }

spec fn c_of(d: int) -> char { ((0x30 + d) as u32) as char }

// x written in decimal with exactly w digits (x < 10^w)
spec fn digits(x: int, w: nat) -> Seq<char>
    decreases w
{
    if w == 0 { Seq::<char>::empty() } else { digits(x / 10, (w - 1) as nat).push(c_of(x % 10)) }
}

spec fn ipow(b: int, e: nat) -> int
    decreases e
{
    if e == 0 { 1 } else { b * ipow(b, (e - 1) as nat) }
}

impl VWriter {
    #[verifier::external_body]
    fn vw_str(&mut self, s: &str) -> (r: fmt::Result)
        ensures final(self).out@ == old(self).out@ + s@, r is Ok
    { self.out.extend(s.chars()); Ok(()) }

    #[verifier::external_body]
    fn vw_char(&mut self, c: char) -> (r: fmt::Result)
        ensures final(self).out@ == old(self).out@.push(c), r is Ok
    { self.out.push(c); Ok(()) }

    // `{:0N}` of a non-negative integer below 10^N: exactly N decimal digits
    #[verifier::external_body]
    fn vw_dec(&mut self, x: i128, width: usize) -> (r: fmt::Result)
        requires 0 <= x,
        ensures r is Ok, x < ipow(10, width as nat) ==> final(self).out@ == old(self).out@ + digits(x as int, width as nat),
    { self.out.extend(format!("{:0w$}", x, w = width).chars()); Ok(()) }
}

// `format!("{:0N}", x)` of a non-negative integer below 10^N
#[verifier::external_body]
fn vfmt_dec(x: i128, width: usize) -> (r: String)
    requires 0 <= x,
    ensures x < ipow(10, width as nat) ==> r@ == digits(x as int, width as nat),
{ format!("{:0w$}", x, w = width) }

spec fn trim_end(s: Seq<char>, c: char) -> Seq<char>
    decreases s.len()
{
    if s.len() > 0 && s[s.len() - 1] == c { trim_end(s.drop_last(), c) } else { s }
}

// rule R8 wrapper around `str::trim_end_matches(char)`
#[verifier::external_body]
fn str_trim_end_char<'a>(s: &'a String, c: char) -> (r: &'a str)
    ensures r@ == trim_end(s@, c),
{ s.trim_end_matches(c) }

// ======================================================================================
// what the printer is supposed to emit
spec fn date_chars(d: Date) -> Seq<char> {
    digits(d.year as int, 4) + seq!['-'] + digits(d.month as int, 2) + seq!['-'] + digits(d.day as int, 2)
}

spec fn frac_chars(ns: int) -> Seq<char> {
    if ns != 0 { seq!['.'] + trim_end(digits(ns, 9), '0') } else { Seq::<char>::empty() }
}

spec fn time_chars(t: Time) -> Seq<char> {
    digits(t.hour as int, 2) + seq![':'] + digits(t.minute as int, 2) + seq![':'] + digits(t.second as int, 2)
        + frac_chars(t.nanosecond as int)
}

spec fn offset_chars(o: Offset) -> Seq<char> {
    match o {
        Offset::Z => seq!['Z'],
        Offset::Custom { minutes } => {
            let a: int = if minutes < 0 { -(minutes as int) } else { minutes as int };
            seq![if minutes < 0 { '-' } else { '+' }] + digits(a / 60, 2) + seq![':'] + digits(a % 60, 2)
        }
    }
}

spec fn opt_date_chars(d: Option<Date>) -> Seq<char> { match d { Some(x) => date_chars(x), None => Seq::<char>::empty() } }
spec fn opt_offset_chars(o: Option<Offset>) -> Seq<char> { match o { Some(x) => offset_chars(x), None => Seq::<char>::empty() } }
spec fn opt_time_chars(has_date: bool, t: Option<Time>) -> Seq<char> {
    match t {
        Some(x) => (if has_date { seq!['T'] } else { Seq::<char>::empty() }) + time_chars(x),
        None => Seq::<char>::empty(),
    }
}

spec fn dt_chars(d: Datetime) -> Seq<char> {
    opt_date_chars(d.date) + opt_time_chars(d.date is Some, d.time) + opt_offset_chars(d.offset)
}

// the values the parsers can produce (and the shapes TOML has)
spec fn date_ok(d: Date) -> bool { d.year <= 9999 && valid_date(d.year as int, d.month as int, d.day as int) }
spec fn time_ok(t: Time) -> bool { valid_time(t.hour as int, t.minute as int, t.second as int) && t.nanosecond <= 999_999_999 }
spec fn offset_ok(o: Offset) -> bool {
    match o { Offset::Z => true, Offset::Custom { minutes } => -1439 <= minutes && minutes <= 1439 }
}
spec fn dt_ok(d: Datetime) -> bool {
    &&& (d.date is Some ==> date_ok(d.date->0))
    &&& (d.time is Some ==> time_ok(d.time->0))
    &&& (d.offset is Some ==> offset_ok(d.offset->0))
    &&& (d.date is Some || d.time is Some)
    &&& (d.offset is Some ==> d.date is Some && d.time is Some)
}

spec fn view_date(d: Option<Date>) -> Option<(int, int, int)> {
    match d { Some(x) => Some((x.year as int, x.month as int, x.day as int)), None => None }
}
spec fn view_time(t: Option<Time>) -> Option<(int, int, int, int)> {
    match t { Some(x) => Some((x.hour as int, x.minute as int, x.second as int, x.nanosecond as int)), None => None }
}
spec fn view_offset(o: Option<Offset>) -> Option<Option<int>> {
    match o {
        Some(Offset::Z) => Some(None::<int>),
        Some(Offset::Custom { minutes }) => Some(Some(minutes as int)),
        None => None,
    }
}
spec fn dt_view(d: Datetime) -> DtView {
    DtView { date: view_date(d.date), time: view_time(d.time), offset: view_offset(d.offset) }
}

// ======================================================================================
// digit-string lemmas
proof fn lemma_pow10()
    ensures
        ipow(10, 0) == 1, ipow(10, 1) == 10, ipow(10, 2) == 100, ipow(10, 3) == 1000, ipow(10, 4) == 10000,
        ipow(10, 5) == 100000, ipow(10, 6) == 1000000, ipow(10, 7) == 10000000, ipow(10, 8) == 100000000,
        ipow(10, 9) == 1000000000,
{
    reveal_with_fuel(ipow, 11);
}

proof fn lemma_c_of(d: int)
    requires 0 <= d <= 9,
    ensures is_dig(c_of(d)), dv(c_of(d)) == d, c_of(d) != '-', c_of(d) != ':', c_of(d) != '.', (c_of(d) == '0') == (d == 0),
{
}

proof fn lemma_digits2(x: int)
    requires 0 <= x < 100,
    ensures digits(x, 2) == seq![c_of(x / 10), c_of(x % 10)],
{
    reveal_with_fuel(digits, 3);
    assert(digits(x, 2) =~= seq![c_of(x / 10), c_of(x % 10)]);
}

proof fn lemma_digits4(x: int)
    requires 0 <= x < 10000,
    ensures digits(x, 4) == seq![c_of(x / 1000), c_of(x / 100 % 10), c_of(x / 10 % 10), c_of(x % 10)],
{
    reveal_with_fuel(digits, 5);
    assert(digits(x, 4) =~= seq![c_of(x / 1000), c_of(x / 100 % 10), c_of(x / 10 % 10), c_of(x % 10)]);
}

// iterated division by ten: qd(x, k) = x / 10^k
spec fn qd(x: int, k: nat) -> int
    decreases k
{
    if k == 0 { x } else { qd(x, (k - 1) as nat) / 10 }
}

// the nine decimal digits of x, most significant first
spec fn dseq9(x: int) -> Seq<int> {
    seq![qd(x, 8) % 10, qd(x, 7) % 10, qd(x, 6) % 10, qd(x, 5) % 10, qd(x, 4) % 10, qd(x, 3) % 10, qd(x, 2) % 10, qd(x, 1) % 10, qd(x, 0) % 10]
}

proof fn lemma_digits9(x: int)
    requires 0 <= x < 1000000000,
    ensures
        digits(x, 9).len() == 9,
        forall|k: int| 0 <= k < 9 ==> digits(x, 9)[k] == c_of(#[trigger] dseq9(x)[k]),
{
    reveal_with_fuel(digits, 10);
    reveal_with_fuel(qd, 10);
    let d = dseq9(x);
    assert(digits(x, 9) =~= seq![c_of(d[0]), c_of(d[1]), c_of(d[2]), c_of(d[3]), c_of(d[4]), c_of(d[5]), c_of(d[6]), c_of(d[7]), c_of(d[8])]);
}

// pure arithmetic: the digits are in 0..9 and their positional sum is x
proof fn lemma_dseq9(x: int)
    requires 0 <= x <= 999_999_999,
    ensures
        dseq9(x).len() == 9,
        forall|k: int| 0 <= k < 9 ==> 0 <= #[trigger] dseq9(x)[k] <= 9,
        x == dseq9(x)[0] * 100000000 + dseq9(x)[1] * 10000000 + dseq9(x)[2] * 1000000 + dseq9(x)[3] * 100000
            + dseq9(x)[4] * 10000 + dseq9(x)[5] * 1000 + dseq9(x)[6] * 100 + dseq9(x)[7] * 10 + dseq9(x)[8],
{
    reveal_with_fuel(qd, 10);
    let q0 = x; let q1 = q0 / 10; let q2 = q1 / 10; let q3 = q2 / 10; let q4 = q3 / 10;
    let q5 = q4 / 10; let q6 = q5 / 10; let q7 = q6 / 10; let q8 = q7 / 10; let q9 = q8 / 10;
    assert(qd(x, 0) == q0 && qd(x, 1) == q1 && qd(x, 2) == q2 && qd(x, 3) == q3 && qd(x, 4) == q4);
    assert(qd(x, 5) == q5 && qd(x, 6) == q6 && qd(x, 7) == q7 && qd(x, 8) == q8);
    assert(q0 == 10 * q1 + q0 % 10 && q1 == 10 * q2 + q1 % 10 && q2 == 10 * q3 + q2 % 10);
    assert(q3 == 10 * q4 + q3 % 10 && q4 == 10 * q5 + q4 % 10 && q5 == 10 * q6 + q5 % 10);
    assert(q6 == 10 * q7 + q6 % 10 && q7 == 10 * q8 + q7 % 10 && q8 == 10 * q9 + q8 % 10);
    assert(q9 == 0);
}

proof fn lemma_str_lits()
    ensures "-"@ == seq!['-'], ":"@ == seq![':'], "."@ == seq!['.'], "T"@ == seq!['T'], "Z"@ == seq!['Z'],
{
    reveal_strlit("-"); reveal_strlit(":"); reveal_strlit("."); reveal_strlit("T"); reveal_strlit("Z");
    assert("-"@ =~= seq!['-']); assert(":"@ =~= seq![':']); assert("."@ =~= seq!['.']);
    assert("T"@ =~= seq!['T']); assert("Z"@ =~= seq!['Z']);
}

//@ contract Date::fmt ret=r
    requires self.year <= 9999, self.month <= 99, self.day <= 99,
    ensures r is Ok, final(f).out@ == old(f).out@ + date_chars(*self),

//@ proof Date::fmt before 0 /f\.vw_dec\(self\.year/
        proof { lemma_str_lits(); lemma_pow10(); }
        let ghost o0 = f.out@;

//@ contract Time::fmt ret=r
    requires self.hour <= 99, self.minute <= 99, self.second <= 99, self.nanosecond <= 999_999_999,
    ensures r is Ok, final(f).out@ == old(f).out@ + time_chars(*self),

//@ proof Time::fmt before 0 /f\.vw_dec\(self\.hour/
        proof { lemma_str_lits(); lemma_pow10(); }
        let ghost o0 = f.out@;

//@ contract Offset::fmt ret=r
    requires offset_ok(*self),
    ensures r is Ok, final(f).out@ == old(f).out@ + offset_chars(*self),

//@ proof Offset::fmt before 0 /match \*self \{/
        proof { lemma_str_lits(); lemma_pow10(); }

//@ contract Datetime::fmt ret=r
    requires dt_ok(*self),
    ensures r is Ok, final(f).out@ == old(f).out@ + dt_chars(*self),
        // the printer clause of C12: the emitted text is a date-time of the grammar with this value
        sp_datetime(dt_chars(*self)) == Some(dt_view(*self)),

//@ proof Datetime::fmt before 0 /if let Some\(ref date\) = self\.date \{/
        proof { lemma_str_lits(); lemma_print_parse(*self); }
        let ghost o0 = f.out@;

//@ proof Datetime::fmt before 0 /Ok\(\(\)\)/
        proof {
            assert(f.out@ =~= o0 + dt_chars(*self));
        }

//@ postlude
// ======================================================================================
// The printer clause of C12: whatever the printer emits for a well-formed value, the
// date-time grammar (O-dt) accepts and assigns that same value.
proof fn lemma_date_rt(d: Date, rest: Seq<char>)
    requires date_ok(d),
    ensures
        date_chars(d).len() == 10,
        sp_date(date_chars(d) + rest, 0) == Some((d.year as int, d.month as int, d.day as int)),
{
    let y = d.year as int; let m = d.month as int; let dd = d.day as int;
    lemma_digits4(y); lemma_digits2(m); lemma_digits2(dd);
    lemma_c_of(y / 1000); lemma_c_of(y / 100 % 10); lemma_c_of(y / 10 % 10); lemma_c_of(y % 10);
    lemma_c_of(m / 10); lemma_c_of(m % 10); lemma_c_of(dd / 10); lemma_c_of(dd % 10);
    let dc = date_chars(d);
    assert(dc =~= seq![c_of(y / 1000), c_of(y / 100 % 10), c_of(y / 10 % 10), c_of(y % 10), '-', c_of(m / 10), c_of(m % 10), '-',
        c_of(dd / 10), c_of(dd % 10)]);
    let s = dc + rest;
    assert(s[0] == dc[0] && s[1] == dc[1] && s[2] == dc[2] && s[3] == dc[3] && s[4] == dc[4]);
    assert(s[5] == dc[5] && s[6] == dc[6] && s[7] == dc[7] && s[8] == dc[8] && s[9] == dc[9]);
    assert(two_v(s, 0) * 100 + two_v(s, 2) == y);
    assert(two_v(s, 5) == m && two_v(s, 8) == dd);
}

// trailing-zero trimming of the nine fraction digits
proof fn lemma_trim9(ns: int)
    requires 0 < ns <= 999_999_999,
    ensures ({
        let dg = digits(ns, 9);
        let tr = trim_end(dg, '0');
        &&& 1 <= tr.len() <= 9
        &&& tr == dg.subrange(0, tr.len() as int)
        &&& (forall|k: int| tr.len() <= k < 9 ==> dg[k] == '0')
        &&& tr[tr.len() - 1] != '0'
    }),
{
    lemma_digits9(ns);
    lemma_dseq9(ns);
    let dg = digits(ns, 9);
    let d = dseq9(ns);
    // at least one digit is non-zero, otherwise ns == 0
    assert(exists|k: int| 0 <= k < 9 && dg[k] != '0') by {
        if forall|k: int| 0 <= k < 9 ==> dg[k] == '0' {
            assert forall|k: int| 0 <= k < 9 implies #[trigger] d[k] == 0 by {
                assert(dg[k] == '0');
                lemma_c_of(d[k]);
            }
            assert(d[0] == 0 && d[1] == 0 && d[2] == 0 && d[3] == 0 && d[4] == 0 && d[5] == 0 && d[6] == 0 && d[7] == 0 && d[8] == 0);
            assert(false);
        }
    }
    lemma_trim_prefix(dg, 9);
    assert(dg.subrange(0, 9) =~= dg);
}

// trim_end(s[..n], '0') is a prefix, everything after it up to n is '0', and it does not end in '0'
proof fn lemma_trim_prefix(s: Seq<char>, n: int)
    requires 0 <= n <= s.len(),
    ensures ({
        let tr = trim_end(s.subrange(0, n), '0');
        &&& tr.len() <= n
        &&& tr == s.subrange(0, tr.len() as int)
        &&& (forall|k: int| tr.len() <= k < n ==> s[k] == '0')
        &&& (tr.len() > 0 ==> tr[tr.len() - 1] != '0')
        &&& ((exists|k: int| 0 <= k < n && s[k] != '0') ==> tr.len() > 0)
    }),
    decreases n
{
    let p = s.subrange(0, n);
    if n > 0 && p[n - 1] == '0' {
        assert(p.drop_last() =~= s.subrange(0, n - 1));
        lemma_trim_prefix(s, n - 1);
        let tr = trim_end(s.subrange(0, n - 1), '0');
        assert(trim_end(p, '0') == tr);
        if exists|k: int| 0 <= k < n && s[k] != '0' {
            let k = choose|k: int| 0 <= k < n && s[k] != '0';
            assert(k < n - 1);
        }
    } else {
        assert(trim_end(p, '0') == p);
        assert(p =~= s.subrange(0, p.len() as int));
    }
}

// where the characters of a printed time sit inside pre + time_chars(t) + rest
proof fn lemma_time_layout(pre: Seq<char>, t: Time, rest: Seq<char>)
    requires time_ok(t),
    ensures ({
        let s = pre + time_chars(t) + rest;
        let i = pre.len() as int;
        let h = t.hour as int; let mi = t.minute as int; let sec = t.second as int; let ns = t.nanosecond as int;
        let tr = trim_end(digits(ns, 9), '0');
        &&& s[i] == c_of(h / 10) && s[i + 1] == c_of(h % 10) && s[i + 2] == ':'
        &&& s[i + 3] == c_of(mi / 10) && s[i + 4] == c_of(mi % 10) && s[i + 5] == ':'
        &&& s[i + 6] == c_of(sec / 10) && s[i + 7] == c_of(sec % 10)
        &&& (ns == 0 ==> time_chars(t).len() == 8 && (rest.len() > 0 ==> s.len() > i + 8 && s[i + 8] == rest[0])
                && (rest.len() == 0 ==> s.len() == i + 8))
        &&& (ns != 0 ==> time_chars(t).len() == 9 + tr.len() && s[i + 8] == '.'
                && (forall|k: int| 0 <= k < tr.len() ==> s[i + 9 + k] == #[trigger] tr[k])
                && (rest.len() > 0 ==> s.len() > i + 9 + tr.len() && s[i + 9 + tr.len()] == rest[0])
                && (rest.len() == 0 ==> s.len() == i + 9 + tr.len()))
    }),
{
    let h = t.hour as int; let mi = t.minute as int; let sec = t.second as int; let ns = t.nanosecond as int;
    let i = pre.len() as int;
    lemma_digits2(h); lemma_digits2(mi); lemma_digits2(sec);
    let base = seq![c_of(h / 10), c_of(h % 10), ':', c_of(mi / 10), c_of(mi % 10), ':', c_of(sec / 10), c_of(sec % 10)];
    let fc = frac_chars(ns);
    let tc = time_chars(t);
    assert(tc =~= base + fc);
    let s = pre + tc + rest;
    assert forall|k: int| 0 <= k < 8 implies s[i + k] == base[k] by { assert(s[i + k] == tc[k]); }
    assert(s[i] == base[0] && s[i + 1] == base[1] && s[i + 2] == base[2] && s[i + 3] == base[3]);
    assert(s[i + 4] == base[4] && s[i + 5] == base[5] && s[i + 6] == base[6] && s[i + 7] == base[7]);
    if ns == 0 {
        assert(fc.len() == 0);
        if rest.len() > 0 { assert(s[i + 8] == rest[0]); }
    } else {
        let tr = trim_end(digits(ns, 9), '0');
        assert(fc =~= seq!['.'] + tr);
        assert(s[i + 8] == '.') by { assert(s[i + 8] == tc[8]); assert(tc[8] == fc[0]); }
        assert forall|k: int| 0 <= k < tr.len() implies s[i + 9 + k] == #[trigger] tr[k] by {
            assert(s[i + 9 + k] == tc[9 + k]);
            assert(tc[9 + k] == fc[1 + k]);
        }
        if rest.len() > 0 { assert(s[i + 9 + tr.len()] == rest[0]); }
    }
}

// the printed fraction: digit run ends where the trimmed digits end, and its secfrac value is ns
proof fn lemma_time_fraction(s: Seq<char>, p: int, ns: int)
    requires
        0 < ns <= 999_999_999, 0 <= p,
        p + trim_end(digits(ns, 9), '0').len() <= s.len(),
        forall|k: int| 0 <= k < trim_end(digits(ns, 9), '0').len() ==> s[p + k] == #[trigger] trim_end(digits(ns, 9), '0')[k],
        p + trim_end(digits(ns, 9), '0').len() == s.len() || !is_dig(s[p + trim_end(digits(ns, 9), '0').len()]),
    ensures
        trim_end(digits(ns, 9), '0').len() >= 1,
        frac_end(s, p) == p + trim_end(digits(ns, 9), '0').len(),
        frac_val(s, p, p + trim_end(digits(ns, 9), '0').len(), 0) == ns,
{
    lemma_trim9(ns);
    lemma_dseq9(ns);
    lemma_digits9(ns);
    let dg = digits(ns, 9);
    let tr = trim_end(dg, '0');
    let l = tr.len() as int;
    let d = dseq9(ns);
    assert forall|k: int| l <= k < 9 implies #[trigger] d[k] == 0 by {
        assert(dg[k] == '0');
        assert(dg[k] == c_of(d[k]));
        lemma_c_of(d[k]);
    }
    assert forall|k: int| 0 <= k < l implies s[p + k] == c_of(#[trigger] d[k]) by {
        assert(s[p + k] == tr[k]);
        assert(tr[k] == dg.subrange(0, l)[k]);
    }
    assert forall|k: int| p <= k < p + l implies is_dig(#[trigger] s[k]) by {
        let j = k - p;
        assert(s[p + j] == c_of(d[j]));
        lemma_c_of(d[j]);
    }
    lemma_frac_end(s, p, p + l);
    lemma_frac_val_digits(s, p, l, d);
}

proof fn lemma_time_rt(pre: Seq<char>, t: Time, rest: Seq<char>)
    requires time_ok(t), rest.len() == 0 || (!is_dig(rest[0]) && rest[0] != '.'),
    ensures
        sp_time(pre + time_chars(t) + rest, pre.len() as int)
            == Some(((t.hour as int, t.minute as int, t.second as int, t.nanosecond as int), (pre.len() + time_chars(t).len()) as int)),
{
    let h = t.hour as int; let mi = t.minute as int; let sec = t.second as int; let ns = t.nanosecond as int;
    let i = pre.len() as int;
    let s = pre + time_chars(t) + rest;
    lemma_time_layout(pre, t, rest);
    lemma_c_of(h / 10); lemma_c_of(h % 10); lemma_c_of(mi / 10); lemma_c_of(mi % 10); lemma_c_of(sec / 10); lemma_c_of(sec % 10);
    assert(two_v(s, i) == h && two_v(s, i + 3) == mi && two_v(s, i + 6) == sec);
    if ns != 0 {
        lemma_time_fraction(s, i + 9, ns);
    }
}

// digit run: if s[p..q] are digits and q is the end or a non-digit, frac_end(s, p) == q
proof fn lemma_frac_end(s: Seq<char>, p: int, q: int)
    requires
        0 <= p <= q <= s.len(),
        forall|i: int| p <= i < q ==> is_dig(#[trigger] s[i]),
        q == s.len() || !is_dig(s[q]),
    ensures frac_end(s, p) == q,
    decreases q - p
{
    if p < q { lemma_frac_end(s, p + 1, q); }
}

// positional value of up to nine fraction digits given explicitly (no div/mod in this lemma)
proof fn lemma_frac_val_digits(s: Seq<char>, start: int, l: int, d: Seq<int>)
    requires
        1 <= l <= 9, 0 <= start, start + l <= s.len(), d.len() == 9,
        forall|k: int| 0 <= k < 9 ==> 0 <= #[trigger] d[k] <= 9,
        forall|k: int| 0 <= k < l ==> s[start + k] == c_of(#[trigger] d[k]),
        forall|k: int| l <= k < 9 ==> #[trigger] d[k] == 0,
    ensures
        frac_val(s, start, start + l, 0) == d[0] * 100000000 + d[1] * 10000000 + d[2] * 1000000 + d[3] * 100000
            + d[4] * 10000 + d[5] * 1000 + d[6] * 100 + d[7] * 10 + d[8],
{
    lemma_pow10();
    assert forall|k: int| 0 <= k < l implies dv(s[start + k]) == #[trigger] d[k] by { lemma_c_of(d[k]); }
    lemma_fv(s, start, start + l, d, 0);
    lemma_tail_sum_all(d);
}

// frac_val from position k on == the tail of the positional sum
spec fn tail_sum(d: Seq<int>, k: int) -> int
    decreases 9 - k
{
    if k >= 9 { 0 } else { d[k] * ipow(10, (8 - k) as nat) + tail_sum(d, k + 1) }
}

proof fn lemma_fv(s: Seq<char>, start: int, end: int, d: Seq<int>, k: int)
    requires
        0 <= k <= 9, d.len() == 9, 0 <= start <= end <= s.len(), end - start <= 9,
        forall|j: int| 0 <= j < end - start ==> dv(s[start + j]) == #[trigger] d[j],
        forall|j: int| end - start <= j < 9 ==> #[trigger] d[j] == 0,
    ensures frac_val(s, start, end, k) == tail_sum(d, k),
    decreases 9 - k
{
    if k < 9 {
        lemma_fv(s, start, end, d, k + 1);
        if start + k >= end {
            assert(d[k] == 0);
            lemma_tail_zero(d, k, end - start);
        }
    }
}

proof fn lemma_tail_zero(d: Seq<int>, k: int, l: int)
    requires 0 <= l <= k <= 9, d.len() == 9, forall|j: int| l <= j < 9 ==> #[trigger] d[j] == 0,
    ensures tail_sum(d, k) == 0,
    decreases 9 - k
{
    if k < 9 { lemma_tail_zero(d, k + 1, l); assert(d[k] == 0); }
}

proof fn lemma_tail_sum_all(d: Seq<int>)
    requires d.len() == 9,
    ensures tail_sum(d, 0) == d[0] * 100000000 + d[1] * 10000000 + d[2] * 1000000 + d[3] * 100000
            + d[4] * 10000 + d[5] * 1000 + d[6] * 100 + d[7] * 10 + d[8],
{
    lemma_pow10();
    reveal_with_fuel(tail_sum, 10);
}

proof fn lemma_offset_rt(pre: Seq<char>, o: Offset)
    requires offset_ok(o),
    ensures
        sp_offset(pre + offset_chars(o), pre.len() as int) == Some((view_offset(Some(o))->0, (pre.len() + offset_chars(o).len()) as int)),
        offset_chars(o).len() > 0, !is_dig(offset_chars(o)[0]), offset_chars(o)[0] != '.',
{
    let i = pre.len() as int;
    let oc = offset_chars(o);
    let s = pre + oc;
    match o {
        Offset::Z => {
            assert(s[i] == oc[0]);
        }
        Offset::Custom { minutes } => {
            let a: int = if minutes < 0 { -(minutes as int) } else { minutes as int };
            let h = a / 60; let m = a % 60;
            lemma_digits2(h); lemma_digits2(m);
            lemma_c_of(h / 10); lemma_c_of(h % 10); lemma_c_of(m / 10); lemma_c_of(m % 10);
            let sg = if minutes < 0 { '-' } else { '+' };
            assert(oc =~= seq![sg, c_of(h / 10), c_of(h % 10), ':', c_of(m / 10), c_of(m % 10)]);
            assert(s[i] == oc[0] && s[i + 1] == oc[1] && s[i + 2] == oc[2] && s[i + 3] == oc[3] && s[i + 4] == oc[4] && s[i + 5] == oc[5]);
            assert(two_v(s, i + 1) == h && two_v(s, i + 4) == m);
            assert(h * 60 + m == a);
        }
    }
}

// THE PRINTER CLAUSE: for every well-formed Datetime d, the grammar accepts the printed text
// and assigns exactly d.  (With V5 — from_str == sp_datetime — printing then parsing with the
// standalone parser is the identity.)
proof fn lemma_print_parse(d: Datetime)
    requires dt_ok(d),
    ensures sp_datetime(dt_chars(d)) == Some(dt_view(d)),
{
    let s = dt_chars(d);
    lemma_dt_cases(s);
    let e = Seq::<char>::empty();
    match d.date {
        Some(date) => {
            let dc = date_chars(date);
            match d.time {
                None => {
                    assert(s =~= dc + e);
                    lemma_date_rt(date, e);
                    assert(s.len() == 10);
                }
                Some(t) => {
                    let pre = dc + seq!['T'];
                    let oc = opt_offset_chars(d.offset);
                    assert(s =~= dc + (seq!['T'] + time_chars(t) + oc));
                    lemma_date_rt(date, seq!['T'] + time_chars(t) + oc);
                    assert(s[10] == 'T');
                    assert(s =~= pre + time_chars(t) + oc);
                    match d.offset {
                        None => {
                            lemma_time_rt(pre, t, oc);
                            assert(pre.len() + time_chars(t).len() == s.len());
                        }
                        Some(o) => {
                            lemma_offset_rt(pre + time_chars(t), o);
                            lemma_time_rt(pre, t, oc);
                            assert(s =~= (pre + time_chars(t)) + offset_chars(o));
                        }
                    }
                }
            }
        }
        None => {
            let t = d.time->0;
            assert(s =~= e + time_chars(t) + e);
            lemma_time_rt(e, t, e);
            assert(s.len() >= 8);
            // a time starts with two digits and ':' at position 2, so it is not a date
            lemma_digits2(t.hour as int);
            assert(sp_time(s, 0) is Some);
            assert(s[2] == ':');
            assert(sp_date(s, 0) is None);
        }
    }
}

//@ main
// Fidelity battery: the EXTRACTED printer (compiled by `verus --compile`) against the real
// `Display for Datetime` on the value grid of specs/shared/battery_dt.rs (`verif_replay fidelity-v6`).
include!("@VERIF@/specs/shared/battery_dt.rs");

fn main() {
    let mut h = 0xcbf29ce484222325u64;
    let vals = dt_values();
    for (date, time, offset) in &vals {
        let d = Datetime {
            date: date.map(|(year, month, day)| Date { year, month, day }),
            time: time.map(|(hour, minute, second, nanosecond)| Time { hour, minute, second, nanosecond }),
            offset: offset.map(|o| match o { None => Offset::Z, Some(minutes) => Offset::Custom { minutes } }),
        };
        let mut w = VWriter { out: Vec::new() };
        d.fmt(&mut w).unwrap();
        let text: String = w.out.iter().collect();
        dt_fnv1a(&mut h, text.as_bytes());
    }
    println!("values {} digest {:016x}", vals.len(), h);
}
