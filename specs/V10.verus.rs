// Contracts for unit V10: rendering a parse error (Display for TomlError in
// crates/toml_edit/src/error.rs) -> C15 (rendering never panics and reports line + 1 and
// column + 1 of the span start), C04 (error rendering)
//@ header
#![allow(unused_imports, dead_code, unused_variables, unused_mut, unused_assignments)]
use vstd::prelude::*;
use vstd::string::*;
use std::fmt::{Display, Formatter, Result};

//@ prelude
// ghost writer over characters; its methods are the assumed effect of core::fmt (rule R1)
struct VWriter { out: Vec<char> }

// decimal digits of an unsigned integer, as `Display for usize` prints them (core::fmt: trusted)
pub uninterp spec fn udec(x: nat) -> Seq<char>;
// UTF-8 encoding of a character sequence (what a String stores)
pub uninterp spec fn utf8(s: Seq<char>) -> Seq<u8>;

impl VWriter {
    #[verifier::external_body]
    fn vw_str(&mut self, s: &str) -> (r: Result)
        ensures final(self).out@ == old(self).out@ + s@, r is Ok
    { self.out.extend(s.chars()); Ok(()) }

    #[verifier::external_body]
    fn vw_udec(&mut self, x: u128) -> (r: Result)
        ensures final(self).out@ == old(self).out@ + udec(x as nat), r is Ok
    { self.out.extend(format!("{}", x).chars()); Ok(()) }

    #[verifier::external_body]
    fn newline(&mut self) -> (r: Result)
        ensures final(self).out@ == old(self).out@.push('\n'), r is Ok
    { self.out.push('\n'); Ok(()) }
}

pub assume_specification [std::string::String::as_bytes] (s: &std::string::String) -> (r: &[u8])
    ensures r@ == utf8(s@);

pub assume_specification [std::string::String::len] (s: &std::string::String) -> (r: usize)
    ensures r == utf8(s@).len();

pub assume_specification<Idx: Clone> [<std::ops::Range<Idx> as Clone>::clone] (s: &std::ops::Range<Idx>) -> (r: std::ops::Range<Idx>)
    ensures r == *s;

// number of occurrences of a character / of a byte
pub open spec fn count_c(s: Seq<char>, c: char) -> nat
    decreases s.len()
{
    if s.len() == 0 { 0 } else { count_c(s.drop_last(), c) + if s.last() == c { 1nat } else { 0nat } }
}
pub open spec fn count_b(s: Seq<u8>, b: u8) -> nat
    decreases s.len()
{
    if s.len() == 0 { 0 } else { count_b(s.drop_last(), b) + if s.last() == b { 1nat } else { 0nat } }
}

// UTF-8: a line feed character is exactly one 0x0A byte and no other character contains that
// byte, so both counts agree (property of the encoding: assumed)
#[verifier::external_body]
proof fn axiom_utf8_newlines(s: Seq<char>)
    ensures count_b(utf8(s), 0x0au8) == count_c(s, '\n'),
{
}

// the n-th piece of `s.split('\n')` (pieces are numbered from 0; there are count + 1 of them)
pub uninterp spec fn nth_line(s: Seq<char>, n: nat) -> Seq<char>;

// rule R13 wrapper: `raw.split('\n').nth(line)`; body = the same call; contract assumed
// (str::split on a char yields exactly count + 1 pieces)
#[verifier::external_body]
fn str_split_nth<'a>(s: &'a String, c: char, n: usize) -> (r: Option<&'a str>)
    requires c == '\n',
    ensures
        r is Some <==> n <= count_c(s@, c),
        r is Some ==> (r->0)@ == nth_line(s@, n as nat),
{ s.split(c).nth(n) }

pub uninterp spec fn joined(v: Seq<String>, sep: Seq<char>) -> Seq<char>;

// rule R14 wrapper: `self.keys.join(".")`; body = the same call
#[verifier::external_body]
fn strs_join(v: &Vec<String>, sep: &str) -> (r: String)
    ensures r@ == joined(v@, sep@),
{ v.join(sep) }

// O-pos: (line, column) of a byte offset -- the oracle unit K8 checks translate_position
// against (kani/spec/oracles.rs: o_pos); here only named, with the two bounds rendering needs
pub uninterp spec fn o_pos(input: Seq<u8>, index: nat) -> (nat, nat);

spec fn rep(c: char, n: nat) -> Seq<char>
    decreases n
{
    if n == 0 { Seq::<char>::empty() } else { rep(c, (n - 1) as nat).push(c) }
}

proof fn lemma_str_lits()
    ensures " "@ == seq![' '], "^"@ == seq!['^'],
{
    reveal_strlit(" "); reveal_strlit("^");
    assert(" "@ =~= seq![' ']); assert("^"@ =~= seq!['^']);
}

proof fn lemma_count_le_len(s: Seq<u8>, b: u8)
    ensures count_b(s, b) <= s.len(),
    decreases s.len(),
{
    if s.len() > 0 { lemma_count_le_len(s.drop_last(), b); }
}

// a String never holds more than isize::MAX bytes (Rust allocation limit: assumed)
#[verifier::external_body]
proof fn axiom_string_len_fits(s: Seq<char>)
    ensures utf8(s).len() <= isize::MAX,
{
}

// type invariant of TomlError (assumed of every constructor: TomlError::new takes the span from
// winnow's char_span over the same document, the serde layer takes item spans of the same
// document): a span is ordered and starts inside the stored source text
spec fn error_wf(e: &TomlError) -> bool {
    (e.raw is Some && e.span is Some) ==> {
        &&& (e.span->0).start <= (e.span->0).end
        &&& (e.span->0).start <= utf8((e.raw->0)@).len()
    }
}

// the text fmt must produce when source and span are present, built line by line:
// `g` gutter width, `k` carets after the first
spec fn r1(line: nat, col: nat) -> Seq<char> {
    "TOML parse error at line "@ + udec(line + 1) + ", column "@ + udec(col + 1) + seq!['\n']
}
spec fn r2(line: nat, col: nat, g: nat) -> Seq<char> {
    r1(line, col) + rep(' ', g + 1) + "|"@ + seq!['\n']
}
spec fn r3(line: nat, col: nat, g: nat, content: Seq<char>) -> Seq<char> {
    r2(line, col, g) + udec(line + 1) + " | "@ + content + seq!['\n']
}
spec fn r4(line: nat, col: nat, g: nat, k: nat, content: Seq<char>) -> Seq<char> {
    r3(line, col, g, content) + rep(' ', g + 1) + "|"@ + rep(' ', col + 1) + "^"@ + rep('^', k) + seq!['\n']
}
spec fn rendered(line: nat, col: nat, g: nat, k: nat, content: Seq<char>, message: Seq<char>) -> Seq<char> {
    r4(line, col, g, k, content) + message + seq!['\n']
}

//@ contract TomlError::span ret=r
    ensures r == self.span,

//@ attr translate_position
#[verifier::external_body]

//@ contract translate_position ret=r
    requires index <= input@.len(),
    ensures
        (r.0 as nat, r.1 as nat) == o_pos(input@, index as nat),
        r.0 <= count_b(input@, 0x0au8),
        r.1 <= index,

//@ contract TomlError::fmt ret=r
    requires
        error_wf(self),
    ensures
        r is Ok,
        (self.raw is Some && self.span is Some) ==> ({
            let p = o_pos(utf8((self.raw->0)@), (self.span->0).start as nat);
            exists|g: nat, k: nat| (k == 0 || k < (self.span->0).end - (self.span->0).start)
                && final(f).out@ == old(f).out@ + #[trigger] rendered(p.0, p.1, g, k, nth_line((self.raw->0)@, p.0), self.message@)
        }),
        !(self.raw is Some && self.span is Some) ==> final(f).out@ == old(f).out@ + self.message@ + seq!['\n']
            + (if self.keys@.len() > 0 { "in `"@ + joined(self.keys@, "."@) + "`"@ + seq!['\n'] } else { Seq::<char>::empty() }),

//@ proof TomlError::fmt before 0 /let mut context = false;/
        let ghost o0 = f.out@;
        let ghost a1: Seq<char> = o0;
        let ghost a2: Seq<char> = o0;
        let ghost a3: Seq<char> = o0;
        let ghost a4: Seq<char> = o0;
        let ghost wit: (nat, nat, nat, nat, Seq<char>) = (0, 0, 0, 0, o0);

//@ proof TomlError::fmt after 0 /let \(line, column\) = translate_position\([^;]*;/
        proof {
            axiom_utf8_newlines(raw@);
            axiom_string_len_fits(raw@);
            lemma_count_le_len(utf8(raw@), 0x0au8);
            lemma_str_lits();
        }

//@ proof TomlError::fmt before 0 /for _ in 0\.\.=gutter \{/
        proof { a1 = f.out@; assert(a1 =~= o0 + r1(line as nat, column as nat)); }

//@ proof TomlError::fmt before 0 /f\.vw_udec\(line_num as u128\)\?; f\.vw_str\(" \| "\)/
        proof { assert(f.out@ =~= o0 + r2(line as nat, column as nat, gutter as nat)); }

//@ loop TomlError::fmt 0 iter=it
                invariant f.out@ == a1 + rep(' ', it.index@ as nat),

//@ proof TomlError::fmt after 0 /f\.vw_str\(" "\)\?;/
                proof { lemma_str_lits(); assert(f.out@ =~= a1 + rep(' ', (it.index@ + 1) as nat)); }

//@ proof TomlError::fmt after 1 /f\.vw_str\(" "\)\?;/
                proof { lemma_str_lits(); assert(f.out@ =~= a2 + rep(' ', (it.index@ + 1) as nat)); }

//@ proof TomlError::fmt after 2 /f\.vw_str\(" "\)\?;/
                proof { lemma_str_lits(); assert(f.out@ =~= a3 + rep(' ', (it.index@ + 1) as nat)); }

//@ proof TomlError::fmt after 1 /f\.vw_str\("\^"\)\?;/
                proof { lemma_str_lits(); assert(f.out@ =~= a4 + rep('^', (it.index@ + 1) as nat)); }

//@ proof TomlError::fmt before 1 /for _ in 0\.\.=gutter \{/
        proof { a2 = f.out@; assert(a2 =~= o0 + r3(line as nat, column as nat, gutter as nat, content@)); }

//@ loop TomlError::fmt 1 iter=it
                invariant f.out@ == a2 + rep(' ', it.index@ as nat),

//@ proof TomlError::fmt before 0 /for _ in 0\.\.=column \{/
        proof { a3 = f.out@; }

//@ loop TomlError::fmt 2 iter=it
                invariant f.out@ == a3 + rep(' ', it.index@ as nat),

//@ proof TomlError::fmt before 0 /for _ in 1\.\.highlight_len \{/
        proof { a4 = f.out@; }

//@ loop TomlError::fmt 3 iter=it
                invariant f.out@ == a4 + rep('^', it.index@ as nat),

//@ proof TomlError::fmt after 0 /for _ in 1\.\.highlight_len \{[^}]*\}/
        proof {
            let k: nat = if highlight_len >= 1 { (highlight_len - 1) as nat } else { 0 };
            wit = (line as nat, column as nat, gutter as nat, k, content@);
            assert(f.out@ == a4 + rep('^', k));
            assert(a3 =~= a2 + rep(' ', (gutter + 1) as nat) + "|"@);
            assert(a4 =~= a3 + rep(' ', (column + 1) as nat) + "^"@);
            assert(f.out@.push('\n') =~= o0 + r4(line as nat, column as nat, gutter as nat, k, content@));
        }

//@ proof TomlError::fmt before 0 /Ok\(\(\)\)/
        proof {
            if self.raw is Some && self.span is Some {
                assert(f.out@ =~= o0 + r4(wit.0, wit.1, wit.2, wit.3, wit.4) + self.message@ + seq!['\n']);
                assert(f.out@ =~= o0 + rendered(wit.0, wit.1, wit.2, wit.3, wit.4, self.message@));
            } else {
                assert(f.out@ =~= o0 + self.message@ + seq!['\n']
                    + (if self.keys@.len() > 0 { "in `"@ + joined(self.keys@, "."@) + "`"@ + seq!['\n'] } else { Seq::<char>::empty() }));
            }
        }

//@ main
// Fidelity battery: the EXTRACTED renderer (compiled by `verus --compile`) on the parse errors
// `verif_replay fidelity-v10-cases` lists (document, span, message of real errors), against the
// digest of the real `Display for TomlError` on the same errors (`verif_replay fidelity-v10`).
fn unhex(s: &str) -> Vec<u8> {
    (0..s.len() / 2).map(|i| u8::from_str_radix(&s[2 * i..2 * i + 2], 16).unwrap()).collect()
}

fn main() {
    let path = std::env::args().nth(1).expect("cases file");
    let text = std::fs::read_to_string(path).expect("cases file readable");
    let mut h = 0xcbf29ce484222325u64;
    let mut n = 0usize;
    for line in text.lines() {
        let parts: Vec<&str> = line.split(' ').collect();
        if parts.len() != 4 { continue; }
        let e = TomlError {
            message: String::from_utf8(unhex(parts[3])).unwrap(),
            raw: Some(String::from_utf8(unhex(parts[0])).unwrap()),
            keys: Vec::new(),
            span: Some(parts[1].parse().unwrap()..parts[2].parse().unwrap()),
        };
        let mut w = VWriter { out: Vec::new() };
        e.fmt(&mut w).unwrap();
        let s: String = w.out.iter().collect();
        for b in s.as_bytes() {
            h ^= *b as u64;
            h = h.wrapping_mul(0x100000001b3);
        }
        h ^= 0xff;
        h = h.wrapping_mul(0x100000001b3);
        n += 1;
    }
    println!("values {} digest {:016x}", n, h);
}
