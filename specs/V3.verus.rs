// Contracts for unit V3: RecursionCheck in crates/toml_edit/src/parser/mod.rs (C05, C04)
//@ header
#![allow(unused_imports, dead_code, unused_variables)]
use vstd::prelude::*;

//@ prelude
// `Key` only occurs as a payload type of CustomError variants that these functions never
// build; it is replaced by an opaque placeholder (stated in DESIGN.md 2.1 "drops").
struct Key {}

// what a first byte of a value dispatches to (classes of the arms of value()'s dispatch!)
#[derive(PartialEq, Eq)]
enum ValueKind {
    Str, GuardedArray, GuardedInlineTable, DateOrNumber,
    IntegerTypo, FloatTypo, True, False, Inf, Nan, Fail,
}

// TOML 1.0.0: val = string / boolean / array / inline-table / date-time / float / integer, by first
// byte; arrays and inline tables are the recursive productions and must go through check_recursion
spec fn value_kind(b: u8) -> ValueKind {
    if b == 0x22 || b == 0x27 { ValueKind::Str }
    else if b == 0x5b { ValueKind::GuardedArray }
    else if b == 0x7b { ValueKind::GuardedInlineTable }
    else if b == 0x2b || b == 0x2d || (0x30 <= b && b <= 0x39) { ValueKind::DateOrNumber }
    else if b == 0x5f { ValueKind::IntegerTypo }
    else if b == 0x2e { ValueKind::FloatTypo }
    else if b == 0x74 { ValueKind::True }
    else if b == 0x66 { ValueKind::False }
    else if b == 0x69 { ValueKind::Inf }
    else if b == 0x6e { ValueKind::Nan }
    else { ValueKind::Fail }
}

//@ contract RecursionCheck::check_depth ret=r
    ensures
        (r is Err) == (_depth >= LIMIT),
        r is Err ==> r->Err_0 is RecursionLimitExceeded,

//@ contract RecursionCheck::enter ret=r
    requires
        old(self).current < usize::MAX,
    ensures
        final(self).current == old(self).current + 1,
        (r is Ok) == (final(self).current < LIMIT),
        r is Err ==> r->Err_0 is RecursionLimitExceeded,

//@ contract RecursionCheck::exit
    requires
        old(self).current >= 1,
    ensures
        final(self).current == old(self).current - 1,

//@ contract key_depth_check ret=r
    ensures
        // a dotted key (or header path) with LIMIT or more segments is refused, shorter ones pass unchanged
        (r is Err) == (k@.len() >= LIMIT),
        r is Err ==> r->Err_0 is RecursionLimitExceeded,
        r is Ok ==> r->Ok_0 == k,

//@ postlude
// O-rec: the limit is a small constant (DESIGN.md section 3: at most 128)
proof fn lemma_limit_small()
    ensures 0 < LIMIT <= 128,
{
}

// enter/exit balance: a successful enter followed by exit restores the counter, and the
// counter never exceeds LIMIT - 1 while inside
proof fn lemma_balance(c: usize)
    requires c + 1 < LIMIT,
    ensures c + 1 - 1 == c,
{
}


//@ contract value_dispatch ret=r
    ensures r == value_kind(b),
