// Contracts for unit V13: how deserialization errors get their location
// (crates/toml_edit/src/de/value.rs, de/table.rs: the `.map_err(|mut e| ..)` closures; the
// accessors of de::Error and TomlError they call) -> C15: an error raised while deserializing
// carries the offending value's span unless it already has one, and collects the key path
//@ header
#![allow(unused_imports, dead_code, unused_variables, unused_mut, unused_assignments)]
use vstd::prelude::*;
use vstd::string::*;

//@ prelude
pub assume_specification<Idx: Clone> [<std::ops::Range<Idx> as Clone>::clone] (s: &std::ops::Range<Idx>) -> (r: std::ops::Range<Idx>)
    ensures r == *s;

// toml_edit::Key, opaque: only its name and its span are used here (accessors assumed)
#[verifier::external_body]
struct Key { _p: () }

pub uninterp spec fn key_name(k: &Key) -> Seq<char>;
pub uninterp spec fn key_span(k: &Key) -> Option<std::ops::Range<usize>>;

impl Key {
    #[verifier::external_body]
    fn get(&self) -> (r: &str)
        ensures r@ == key_name(self),
    { unimplemented!() }

    #[verifier::external_body]
    fn span(&self) -> (r: Option<std::ops::Range<usize>>)
        ensures r == key_span(self),
    { unimplemented!() }
}

// what every "attach the span" closure must do
spec fn located(e: Error, span: Option<std::ops::Range<usize>>, r: Error) -> bool {
    &&& r.inner.span == (if e.inner.span is Some { e.inner.span } else { span })
    &&& r.inner.message == e.inner.message
    &&& r.inner.raw == e.inner.raw
    &&& r.inner.keys == e.inner.keys
}

//@ contract TomlError::add_key
    ensures
        final(self).keys@ == seq![key] + old(self).keys@,
        final(self).message == old(self).message, final(self).raw == old(self).raw, final(self).span == old(self).span,

//@ contract TomlError::span ret=r
    ensures r == self.span,

//@ contract TomlError::set_span
    ensures
        final(self).span == span,
        final(self).message == old(self).message, final(self).raw == old(self).raw, final(self).keys == old(self).keys,

//@ contract TomlError::set_raw
    ensures
        final(self).raw == raw,
        final(self).message == old(self).message, final(self).span == old(self).span, final(self).keys == old(self).keys,

//@ contract Error::add_key
    ensures
        final(self).inner.keys@ == seq![key] + old(self).inner.keys@,
        final(self).inner.message == old(self).inner.message, final(self).inner.raw == old(self).inner.raw,
        final(self).inner.span == old(self).inner.span,

//@ contract Error::span ret=r
    ensures r == self.inner.span,

//@ contract Error::set_span
    ensures
        final(self).inner.span == span,
        final(self).inner.message == old(self).inner.message, final(self).inner.raw == old(self).inner.raw,
        final(self).inner.keys == old(self).inner.keys,

//@ contract value_any_err ret=r
    ensures located(e, span, r),

//@ contract value_option_err ret=r
    ensures located(e, span, r),

//@ contract value_newtype_err ret=r
    ensures located(e, span, r),

//@ contract value_datetime_err ret=r
    ensures located(e, span, r),

//@ contract value_struct_keys_err ret=r
    ensures located(e, span, r),

//@ contract value_enum_err ret=r
    ensures located(e, span, r),

//@ contract table_key_err ret=r
    ensures located(e, key_span, r),

//@ contract table_value_err ret=r
    ensures
        r.inner.span == (if e.inner.span is Some { e.inner.span } else { span }),
        r.inner.message == e.inner.message, r.inner.raw == e.inner.raw,
        r.inner.keys@.len() == e.inner.keys@.len() + 1,
        r.inner.keys@[0]@ == key_name(&k),
        r.inner.keys@.skip(1) == e.inner.keys@,

//@ contract table_variant_err ret=r
    ensures located(e, key_span(&key), r),

//@ contract doc_any_err ret=r
    ensures
        // the document text is attached exactly when it is available (its content passes through
        // `S: Into<String>`, which has no specification here: only presence is decided)
        (r.inner.raw is Some) == (raw is Some),
        r.inner.message == e.inner.message, r.inner.span == e.inner.span, r.inner.keys == e.inner.keys,

//@ contract doc_option_err ret=r
    ensures
        // the document text is attached exactly when it is available (its content passes through
        // `S: Into<String>`, which has no specification here: only presence is decided)
        (r.inner.raw is Some) == (raw is Some),
        r.inner.message == e.inner.message, r.inner.span == e.inner.span, r.inner.keys == e.inner.keys,

//@ contract doc_newtype_struct_err ret=r
    ensures
        // the document text is attached exactly when it is available (its content passes through
        // `S: Into<String>`, which has no specification here: only presence is decided)
        (r.inner.raw is Some) == (raw is Some),
        r.inner.message == e.inner.message, r.inner.span == e.inner.span, r.inner.keys == e.inner.keys,

//@ contract doc_struct_err ret=r
    ensures
        // the document text is attached exactly when it is available (its content passes through
        // `S: Into<String>`, which has no specification here: only presence is decided)
        (r.inner.raw is Some) == (raw is Some),
        r.inner.message == e.inner.message, r.inner.span == e.inner.span, r.inner.keys == e.inner.keys,

//@ contract doc_enum_err ret=r
    ensures
        // the document text is attached exactly when it is available (its content passes through
        // `S: Into<String>`, which has no specification here: only presence is decided)
        (r.inner.raw is Some) == (raw is Some),
        r.inner.message == e.inner.message, r.inner.span == e.inner.span, r.inner.keys == e.inner.keys,
