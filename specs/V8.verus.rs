// Contracts for unit V8: the radix-conversion closures of `integer` in
// crates/toml_edit/src/parser/numbers.rs  -> C11, C01 (integer literals beyond i64 are
// rejected, never wrapped or saturated), C02 (value of accepted literals)
//@ header
#![allow(unused_imports, dead_code, unused_variables, unused_mut, unused_assignments)]
use vstd::prelude::*;
use vstd::string::*;

//@ prelude
#[verifier::external_type_specification]
#[verifier::external_body]
pub struct ExParseIntError(core::num::ParseIntError);

// ---------------------------------------------------------------- O-int
pub open spec fn digit_val(c: char) -> int {
    if '0' <= c && c <= '9' { c as u32 as int - 0x30 }
    else if 'a' <= c && c <= 'f' { c as u32 as int - 0x61 + 10 }
    else if 'A' <= c && c <= 'F' { c as u32 as int - 0x41 + 10 }
    else { 99 }
}

// all characters are digits of the radix (no sign, no underscore)
pub open spec fn all_radix_digits(t: Seq<char>, radix: int) -> bool {
    forall|i: int| 0 <= i < t.len() ==> digit_val(#[trigger] t[i]) < radix
}

// mathematical value of a digit string
pub open spec fn int_value(t: Seq<char>, radix: int) -> int
    decreases t.len()
{
    if t.len() == 0 { 0 } else { int_value(t.drop_last(), radix) * radix + digit_val(t[t.len() - 1]) }
}

spec fn remove_char(t: Seq<char>, c: char) -> Seq<char>
    decreases t.len()
{
    if t.len() == 0 { t } else if t[t.len() - 1] == c { remove_char(t.drop_last(), c) } else { remove_char(t.drop_last(), c).push(t[t.len() - 1]) }
}

// optional sign followed by decimal digits
spec fn dec_shape(t: Seq<char>) -> bool {
    t.len() > 0 && (if t[0] == '+' || t[0] == '-' { t.len() > 1 && all_radix_digits(t.subrange(1, t.len() as int), 10) } else { all_radix_digits(t, 10) })
}
spec fn dec_value(t: Seq<char>) -> int {
    if t[0] == '-' { -int_value(t.subrange(1, t.len() as int), 10) }
    else if t[0] == '+' { int_value(t.subrange(1, t.len() as int), 10) }
    else { int_value(t, 10) }
}

// ---------------------------------------------------------------- assumed std contracts
// rule R12 wrapper: `X.replace(c, "")` removes every occurrence of the character
#[verifier::external_body]
fn str_remove_char(s: &str, c: char) -> (r: String)
    ensures r@ == remove_char(s@, c),
{ s.replace(c, "") }

// i64::from_str_radix on a non-empty string of digits of the radix: the value if it fits, else an error
pub assume_specification[i64::from_str_radix](s: &str, radix: u32) -> (r: Result<i64, core::num::ParseIntError>)
    ensures
        s@.len() > 0 && all_radix_digits(s@, radix as int) && 2 <= radix <= 16 ==>
            (r is Ok) == (int_value(s@, radix as int) <= i64::MAX) && (r is Ok ==> r->Ok_0 as int == int_value(s@, radix as int));

// the unsigned sibling (not used by the current code; specified so that an edit routing a
// literal through u64 is judged by the contract instead of being an unsupported construct)
pub assume_specification[u64::from_str_radix](s: &str, radix: u32) -> (r: Result<u64, core::num::ParseIntError>)
    ensures
        s@.len() > 0 && all_radix_digits(s@, radix as int) && 2 <= radix <= 16 ==>
            (r is Ok) == (int_value(s@, radix as int) <= u64::MAX) && (r is Ok ==> r->Ok_0 as int == int_value(s@, radix as int));

// rule R11b wrapper: `X.parse()` at type i64 on an optionally signed decimal digit string
#[verifier::external_body]
fn parse_i64(s: &String) -> (r: Result<i64, core::num::ParseIntError>)
    ensures
        dec_shape(s@) ==> (r is Ok) == (i64::MIN <= dec_value(s@) <= i64::MAX) && (r is Ok ==> r->Ok_0 as int == dec_value(s@)),
{ s.parse() }

//@ contract hex_conv ret=r
    requires remove_char(s@, '_').len() > 0, all_radix_digits(remove_char(s@, '_'), 16),
    ensures
        (r is Ok) == (int_value(remove_char(s@, '_'), 16) <= i64::MAX),
        r is Ok ==> r->Ok_0 as int == int_value(remove_char(s@, '_'), 16),

//@ contract oct_conv ret=r
    requires remove_char(s@, '_').len() > 0, all_radix_digits(remove_char(s@, '_'), 8),
    ensures
        (r is Ok) == (int_value(remove_char(s@, '_'), 8) <= i64::MAX),
        r is Ok ==> r->Ok_0 as int == int_value(remove_char(s@, '_'), 8),

//@ contract bin_conv ret=r
    requires remove_char(s@, '_').len() > 0, all_radix_digits(remove_char(s@, '_'), 2),
    ensures
        (r is Ok) == (int_value(remove_char(s@, '_'), 2) <= i64::MAX),
        r is Ok ==> r->Ok_0 as int == int_value(remove_char(s@, '_'), 2),

//@ contract dec_conv ret=r
    requires dec_shape(remove_char(s@, '_')),
    ensures
        (r is Ok) == (i64::MIN <= dec_value(remove_char(s@, '_')) <= i64::MAX),
        r is Ok ==> r->Ok_0 as int == dec_value(remove_char(s@, '_')),
