// Contracts for unit V14: the serde front end of the `toml` crate hands the parser exactly the
// caller's text (crates/toml/src/de.rs: Deserializer::new, ValueDeserializer::new) -> C14 (spans
// and error locations are offsets into the text the caller passed), C01 (same parser, same text)
//@ header
#![allow(unused_imports, dead_code, unused_variables, unused_mut, unused_assignments)]
use vstd::prelude::*;
use vstd::string::*;

//@ prelude

//@ contract Deserializer::new ret=r
    ensures r.input@ == input@,

//@ contract ValueDeserializer::new ret=r
    ensures r.input@ == input@,
