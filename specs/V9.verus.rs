// Contracts for unit V9: the closures of `hexescape::<N>` in
// crates/toml_edit/src/parser/strings.rs  -> C01 (escape grammar: exactly N hex digits, Unicode
// scalar values only), C02 (value of \uXXXX / \UXXXXXXXX), C04
//@ header
#![allow(unused_imports, dead_code, unused_variables, unused_mut, unused_assignments)]
use vstd::prelude::*;
use vstd::string::*;

//@ prelude
struct Key {}

#[verifier::external_type_specification]
#[verifier::external_body]
pub struct ExParseIntError(core::num::ParseIntError);

// ---------------------------------------------------------------- O-esc
pub open spec fn hex_digit_val(c: char) -> int {
    if '0' <= c && c <= '9' { c as u32 as int - 0x30 }
    else if 'a' <= c && c <= 'f' { c as u32 as int - 0x61 + 10 }
    else if 'A' <= c && c <= 'F' { c as u32 as int - 0x41 + 10 }
    else { 99 }
}
pub open spec fn all_hex(t: Seq<char>) -> bool {
    forall|i: int| 0 <= i < t.len() ==> hex_digit_val(#[trigger] t[i]) < 16
}
pub open spec fn hex_value(t: Seq<char>) -> int
    decreases t.len()
{
    if t.len() == 0 { 0 } else { hex_value(t.drop_last()) * 16 + hex_digit_val(t[t.len() - 1]) }
}
// a Unicode scalar value: at most 10FFFF and not a surrogate
pub open spec fn is_scalar_value(h: int) -> bool {
    0 <= h <= 0x10FFFF && !(0xD800 <= h <= 0xDFFF)
}

// ---------------------------------------------------------------- assumed std contracts
// u32::from_str_radix on 1..=8 hex digits: their value (which always fits u32)
pub assume_specification[u32::from_str_radix](s: &str, radix: u32) -> (r: Result<u32, core::num::ParseIntError>)
    ensures
        radix == 16 && all_hex(s@) && 1 <= s@.len() <= 8 ==> r is Ok && r->Ok_0 as int == hex_value(s@);

// char::from_u32: Some exactly for Unicode scalar values, and then that code point
pub assume_specification[char::from_u32](h: u32) -> (r: Option<char>)
    ensures
        (r is Some) == is_scalar_value(h as int),
        r is Some ==> r->0 as u32 == h;

// O-esc, one-letter escapes of TOML 1.0.0: \b \t \n \f \r \" \\  (u and U introduce hex escapes)
spec fn escape_value(b: u8) -> Option<char> {
    if b == 0x62 { Some('\u{8}') }
    else if b == 0x74 { Some('\u{9}') }
    else if b == 0x6e { Some('\u{a}') }
    else if b == 0x66 { Some('\u{c}') }
    else if b == 0x72 { Some('\u{d}') }
    else if b == 0x22 { Some('\u{22}') }
    else if b == 0x5c { Some('\u{5c}') }
    else { None }
}


//@ contract hexescape_len ret=r
    ensures r == (b@.len() == N),

//@ contract hexescape_value ret=r
    requires all_hex(s@), 1 <= s@.len() <= 8,     // take_while(0..=N, HEXDIG) with length N in {4, 8}
    ensures r is Some, r->0 as int == hex_value(s@),

//@ contract hexescape_scalar ret=r
    ensures
        // surrogates and values above 10FFFF are refused, every scalar value is accepted unchanged
        (r is Ok) == is_scalar_value(h as int),
        r is Ok ==> r->Ok_0 as u32 == h,
        r is Err ==> r->Err_0 is OutOfRange,

//@ contract escape_letter_value ret=r
    ensures r == escape_value(b),
