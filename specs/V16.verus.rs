// Contracts for unit V16: first-byte dispatch tables of the document grammar (the arms of winnow
// `dispatch!` blocks, extracted as pure tables: rule R15 with unit-declared arm classes) -> C01
//@ header
#![allow(unused_imports, dead_code, unused_variables, unused_mut, unused_assignments)]
use vstd::prelude::*;

//@ prelude
#[derive(PartialEq, Eq)]
enum NewlineKind { Done, NeedLf, Fail }
#[derive(PartialEq, Eq)]
enum LineKind { Comment, Table, Newline, KeyVal }
#[derive(PartialEq, Eq)]
enum KeyKind { Basic, Literal, Unquoted }

//@ contract newline_dispatch ret=r
    // newline = %x0A / %x0D.0A : LF alone is a newline, CR must be followed by LF, nothing else is
    ensures r == (if b == 0x0a { NewlineKind::Done } else if b == 0x0d { NewlineKind::NeedLf } else { NewlineKind::Fail }),

//@ contract line_dispatch ret=r
    // expression = ws [ comment ] / ws keyval ws [ comment ] / ws table ws [ comment ], one per line
    ensures r == (if b == 0x23 { LineKind::Comment } else if b == 0x5b { LineKind::Table }
                  else if b == 0x0a || b == 0x0d { LineKind::Newline } else { LineKind::KeyVal }),

//@ contract key_dispatch ret=r
    // simple-key = quoted-key / unquoted-key ; quoted-key = basic-string / literal-string
    ensures r == (if b == 0x22 { KeyKind::Basic } else if b == 0x27 { KeyKind::Literal } else { KeyKind::Unquoted }),
