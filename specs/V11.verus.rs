// Contracts for unit V11: assembly of the parsed date-time parts in the document grammar
// (crates/toml_edit/src/parser/datetime.rs: the closures of date_time, partial_time and
// time_offset, the value full_date_ returns) and the From<Date>/From<Time> conversions of
// toml_datetime they rely on -> C02 (date-time assembly), C12, C04
//@ header
#![allow(unused_imports, dead_code, unused_variables, unused_mut, unused_assignments)]
use vstd::prelude::*;

//@ prelude
// (vstd specifies Option::unwrap_or_default and u32::default)

//@ contract Datetime::from_date ret=r
    ensures r.date == Some(other), r.time is None, r.offset is None,

//@ contract Datetime::from_time ret=r
    ensures r.date is None, r.time == Some(other), r.offset is None,

//@ contract date_time_assemble ret=r
    ensures
        r.date == Some(date),
        opt is None ==> r.time is None && r.offset is None,
        opt is Some ==> r.time == Some((opt->0).1) && r.offset == (opt->0).2,

//@ contract partial_time_assemble ret=r
    ensures
        r.hour == hour, r.minute == minute, r.second == second,
        r.nanosecond == (match nanosecond { Some(x) => x, None => 0u32 }),

//@ contract offset_in_range ret=r
    ensures r == (-1440 <= *minutes && *minutes <= 1440),

//@ contract offset_wrap ret=r
    ensures r == (Offset::Custom { minutes }),

//@ contract full_date_value ret=r
    ensures r is Ok, (r->Ok_0).year == year, (r->Ok_0).month == month, (r->Ok_0).day == day,
