// Contracts for unit V7: the closure body of `time_secfrac` in
// crates/toml_edit/src/parser/datetime.rs (document grammar): fractional seconds are
// TRUNCATED to nanoseconds, for a digit string of any length  -> C02, C12, C04
//@ header
#![allow(unused_imports, dead_code, unused_variables, unused_mut, unused_assignments)]
use vstd::prelude::*;
use vstd::string::*;
use vstd::utf8::*;
use vstd::slice::*;

//@ prelude
struct Key {}

#[verifier::external_type_specification]
#[verifier::external_body]
pub struct ExParseIntError(core::num::ParseIntError);

pub assume_specification<I: core::slice::SliceIndex<str>>[<str as core::ops::Index<I>>::index](s: &str, i: I) -> (r: &I::Output)
    ensures i.index_postcondition(s, r);

#[verifier::external_body]
proof fn axiom_str_len_fits(s: &str)
    ensures s.spec_bytes().len() <= usize::MAX,
{
}

spec fn is_dig_byte(x: u8) -> bool { 0x30 <= x && x <= 0x39 }
spec fn all_digits(b: Seq<u8>) -> bool { forall|i: int| 0 <= i < b.len() ==> is_dig_byte(#[trigger] b[i]) }

// decimal value of the first n bytes
spec fn dval(b: Seq<u8>, n: int) -> int
    decreases n
{
    if n <= 0 { 0 } else { dval(b, n - 1) * 10 + (b[n - 1] as int - 0x30) }
}

spec fn ipow(b: int, e: nat) -> int
    decreases e
{
    if e == 0 { 1 } else { b * ipow(b, (e - 1) as nat) }
}

// O-date secfrac: the first nine digits, right-padded with zeros (truncation, not rounding)
spec fn secfrac(b: Seq<u8>) -> int {
    let n = if b.len() < 9 { b.len() as int } else { 9 };
    dval(b, n) * ipow(10, (9 - n) as nat)
}

// rule R11 wrapper around `str::parse::<u32>()`: on 1..=9 ASCII digits it returns their value
#[verifier::external_body]
fn parse_u32(s: &str) -> (r: Result<u32, core::num::ParseIntError>)
    ensures all_digits(s.spec_bytes()) && 1 <= s.spec_bytes().len() <= 9 ==>
        r is Ok && r->Ok_0 as int == dval(s.spec_bytes(), s.spec_bytes().len() as int),
{ s.parse::<u32>() }

proof fn lemma_pow10()
    ensures
        ipow(10, 0) == 1, ipow(10, 1) == 10, ipow(10, 2) == 100, ipow(10, 3) == 1000, ipow(10, 4) == 10000,
        ipow(10, 5) == 100000, ipow(10, 6) == 1000000, ipow(10, 7) == 10000000, ipow(10, 8) == 100000000,
        ipow(10, 9) == 1000000000,
{
    reveal_with_fuel(ipow, 11);
}

proof fn lemma_pow_split(n: int)
    requires 1 <= n <= 9,
    ensures ipow(10, n as nat) * ipow(10, (9 - n) as nat) == 1000000000, ipow(10, (9 - n) as nat) > 0,
{
    lemma_pow10();
    if n == 1 { assert(ipow(10, 1) * ipow(10, 8) == 1000000000); }
    else if n == 2 { assert(ipow(10, 2) * ipow(10, 7) == 1000000000); }
    else if n == 3 { assert(ipow(10, 3) * ipow(10, 6) == 1000000000); }
    else if n == 4 { assert(ipow(10, 4) * ipow(10, 5) == 1000000000); }
    else if n == 5 { assert(ipow(10, 5) * ipow(10, 4) == 1000000000); }
    else if n == 6 { assert(ipow(10, 6) * ipow(10, 3) == 1000000000); }
    else if n == 7 { assert(ipow(10, 7) * ipow(10, 2) == 1000000000); }
    else if n == 8 { assert(ipow(10, 8) * ipow(10, 1) == 1000000000); }
    else { assert(ipow(10, 9) * ipow(10, 0) == 1000000000); }
}

proof fn lemma_dval_bound(b: Seq<u8>, n: int)
    requires 0 <= n <= b.len(), n <= 9, all_digits(b),
    ensures 0 <= dval(b, n) < ipow(10, n as nat),
    decreases n
{
    lemma_pow10();
    reveal_with_fuel(ipow, 2);
    if n > 0 {
        lemma_dval_bound(b, n - 1);
        assert(is_dig_byte(b[n - 1]));
        assert(ipow(10, n as nat) == 10 * ipow(10, (n - 1) as nat));
    }
}

// dval of a prefix only depends on the prefix
proof fn lemma_dval_prefix(b: Seq<u8>, n: int, m: int)
    requires 0 <= n <= m <= b.len(),
    ensures dval(b.subrange(0, m), n) == dval(b, n),
    decreases n
{
    if n > 0 { lemma_dval_prefix(b, n - 1, m); }
}

proof fn lemma_str_bytes_valid(s: &str)
    ensures valid_utf8(s.spec_bytes())
{
    encode_utf8_valid_utf8(s@);
}

// an ASCII byte ends a scalar value
proof fn lemma_ascii_boundary(b: Seq<u8>, i: int)
    requires valid_utf8(b), 0 <= i < b.len(), b[i] < 0x80,
    ensures is_char_boundary(b, i), is_char_boundary(b, i + 1),
{
    is_char_boundary_iff_not_is_continuation_byte(b, i);
    valid_utf8_split(b, i);
    let t = b.subrange(i, b.len() as int);
    assert(t[0] == b[i]);
    assert(valid_first_scalar(t));
    assert(length_of_first_scalar(t) == 1);
    let u = pop_first_scalar(t);
    assert(u =~= b.subrange(i + 1, b.len() as int));
    assert(valid_utf8(u));
    if i + 1 == b.len() {
        is_char_boundary_start_end_of_seq(b);
    } else {
        assert(valid_first_scalar(u));
        assert(u[0] == b[i + 1]);
        assert(!is_continuation_byte(b[i + 1]));
        is_char_boundary_iff_not_is_continuation_byte(b, i + 1);
    }
}

//@ contract secfrac_doc ret=r
    requires
        // what `preceded(b'.', unsigned_digits::<1, INF>)` hands to the closure
        repr.spec_bytes().len() >= 1,
        all_digits(repr.spec_bytes()),
    ensures
        r is Ok,
        r->Ok_0 as int == secfrac(repr.spec_bytes()),
        r->Ok_0 <= 999_999_999,

//@ proof secfrac_doc before 0 /let max_digits = SCALE\.len\(\) - 1;/
    let ghost b0 = repr.spec_bytes();
    proof {
        lemma_str_bytes_valid(repr);
        axiom_str_len_fits(repr);
        lemma_pow10();
        is_char_boundary_start_end_of_seq(b0);
        if b0.len() > 9 {
            assert(is_dig_byte(b0[8]));
            lemma_ascii_boundary(b0, 8);
        }
    }

//@ proof secfrac_doc before 0 /let v = parse_u32\(repr\)/
    let ghost b1 = repr.spec_bytes();
    proof {
        axiom_str_len_fits(repr);
        let n = if b0.len() < 9 { b0.len() as int } else { 9 };
        assert(b1 =~= b0.subrange(0, n));
        assert(all_digits(b1));
        lemma_dval_prefix(b0, n, n);
        lemma_dval_bound(b0, n);
    }

//@ proof secfrac_doc before 0 /let v = v\.checked_mul\(\*scale\)/
    proof {
        let n = b1.len() as int;
        assert(*scale as int == ipow(10, (9 - n) as nat));
        assert(v as int * ipow(10, (9 - n) as nat) < ipow(10, n as nat) * ipow(10, (9 - n) as nat)) by (nonlinear_arith)
            requires 0 <= v as int, (v as int) < ipow(10, n as nat), ipow(10, (9 - n) as nat) > 0;
        assert(1 <= n <= 9);
        lemma_pow_split(n);
    }
