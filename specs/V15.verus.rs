// Contracts for unit V15: what the string parsers of crates/toml_edit/src/parser/strings.rs put
// into the decoded value at the points where it differs from the source text -> C02: CRLF is
// normalised to LF in multi-line strings (literal: the body's `replace`; basic: the newline
// alternative), a line-ending backslash contributes nothing, an escape contributes its character
//@ header
#![allow(unused_imports, dead_code, unused_variables, unused_mut, unused_assignments)]
use vstd::prelude::*;
use vstd::string::*;
use std::borrow::Cow;

//@ prelude
spec fn cow_view(c: Cow<'_, str>) -> Seq<char> {
    match c { Cow::Borrowed(s) => s@, Cow::Owned(s) => s@ }
}

// substring occurrence and leftmost non-overlapping replacement (what str::contains / str::replace
// compute for a non-empty string pattern)
pub open spec fn occurs_at(t: Seq<char>, p: Seq<char>, i: int) -> bool {
    0 <= i && i + p.len() <= t.len() && t.subrange(i, i + p.len()) == p
}
pub open spec fn contains_sub(t: Seq<char>, p: Seq<char>) -> bool {
    exists|i: int| occurs_at(t, p, i)
}
pub open spec fn replace_sub(t: Seq<char>, a: Seq<char>, b: Seq<char>) -> Seq<char>
    decreases t.len()
{
    if a.len() == 0 || t.len() < a.len() { t }
    else if t.subrange(0, a.len() as int) == a { b + replace_sub(t.subrange(a.len() as int, t.len() as int), a, b) }
    else { seq![t[0]] + replace_sub(t.drop_first(), a, b) }
}

// rule R16 wrappers: body = the same call; contract assumed
#[verifier::external_body]
fn str_contains(t: &str, p: &str) -> (r: bool)
    ensures r == contains_sub(t@, p@),
{ t.contains(p) }

#[verifier::external_body]
fn str_replace(t: &str, a: &str, b: &str) -> (r: String)
    ensures r@ == replace_sub(t@, a@, b@),
{ t.replace(a, b) }

// `String::from(c)` for a char: the one-character string (vstd has no specification for it)
pub assume_specification [<String as From<char>>::from] (c: char) -> (r: String)
    ensures r@ == seq![c];

// without an occurrence, replacement is the identity
proof fn lemma_replace_absent(t: Seq<char>, a: Seq<char>, b: Seq<char>)
    requires a.len() > 0, !contains_sub(t, a),
    ensures replace_sub(t, a, b) == t,
    decreases t.len(),
{
    if t.len() >= a.len() {
        assert(!occurs_at(t, a, 0));
        let u = t.drop_first();
        assert forall|i: int| !occurs_at(u, a, i) by {
            if occurs_at(u, a, i) {
                assert(u.subrange(i, i + a.len()) =~= t.subrange(i + 1, i + 1 + a.len()));
                assert(occurs_at(t, a, i + 1));
            }
        }
        lemma_replace_absent(u, a, b);
        assert(seq![t[0]] + u =~= t);
    }
}

proof fn lemma_lits()
    ensures "\r\n"@ == seq!['\r', '\n'], "\n"@ == seq!['\n'], ""@ == Seq::<char>::empty(),
{
    reveal_strlit("\r\n"); reveal_strlit("\n"); reveal_strlit("");
    assert("\r\n"@ =~= seq!['\r', '\n']); assert("\n"@ =~= seq!['\n']); assert(""@ =~= Seq::<char>::empty());
}

//@ contract mll_normalize ret=r
    ensures cow_view(r) == replace_sub(t@, seq!['\r', '\n'], seq!['\n']),

//@ proof mll_normalize before 0 /if /
    proof {
        lemma_lits();
        if !contains_sub(t@, seq!['\r', '\n']) { lemma_replace_absent(t@, seq!['\r', '\n'], seq!['\n']); }
    }

//@ contract mlb_escaped_nl_value ret=r
    ensures cow_view(r) == Seq::<char>::empty(),

//@ proof mlb_escaped_nl_value before 0 /Cow::/
    proof { lemma_lits(); }

//@ contract mlb_escaped_value ret=r
    ensures cow_view(r) == seq![c],

//@ contract mlb_newline_value ret=r
    ensures cow_view(r) == seq!['\n'],

//@ proof mlb_newline_value before 0 /Cow::/
    proof { lemma_lits(); }

//@ contract basic_escaped_value ret=r
    ensures cow_view(r) == seq![c],
