// Contracts for unit V4: the calendar rule, both copies (C01, C12, C04)
//@ header
#![allow(unused_imports, dead_code, unused_variables)]
use vstd::prelude::*;

//@ prelude
// O-date
spec fn is_leap(y: int) -> bool { y % 4 == 0 && (y % 100 != 0 || y % 400 == 0) }

spec fn days_in_month(y: int, m: int) -> int {
    if m == 1 || m == 3 || m == 5 || m == 7 || m == 8 || m == 10 || m == 12 { 31 }
    else if m == 4 || m == 6 || m == 9 || m == 11 { 30 }
    else if m == 2 { if is_leap(y) { 29 } else { 28 } }
    else { 0 }
}

spec fn valid_date(y: int, m: int, d: int) -> bool {
    1 <= m <= 12 && 1 <= d <= days_in_month(y, m)
}

//@ contract calendar_doc ret=reject
    requires 1 <= month <= 12,
    ensures reject == (day as int > days_in_month(year as int, month as int)),

//@ contract calendar_standalone ret=r
    ensures (r is Ok) == valid_date(date.year as int, date.month as int, date.day as int),

//@ contract time_ranges_standalone ret=r
    ensures (r is Ok) == (time.hour <= 23 && time.minute <= 59 && time.second <= 60 && time.nanosecond <= 999_999_999),

//@ contract offset_standalone ret=r
    requires
        sign == 1 || sign == -1,
        0 <= h1 <= 9, 0 <= h2 <= 9, 0 <= m1 <= 9, 0 <= m2 <= 9,
    ensures
        (r is Ok) == (h1 * 10 + h2 <= 23 && m1 * 10 + m2 <= 59),
        r is Ok ==> r->Ok_0 as int == sign as int * ((h1 * 10 + h2) * 60 + (m1 * 10 + m2)),

//@ contract offset_doc ret=r
    requires
        sign == 0x2b || sign == 0x2d,      // one_of((b'+', b'-')) matched
        hours <= 23, minutes <= 59,        // time_hour / time_minute ranges (K2)
    ensures
        r as int == (if sign == 0x2b { 1int } else { -1int }) * (hours as int * 60 + minutes as int),

//@ proof offset_doc before 0 /sign \* \(hours as i16 \* 60 \+ minutes as i16\)/
    proof {
        assert(sign == 1 || sign == -1);
        let m = hours as int * 60 + minutes as int;
        assert(0 <= m <= 1439);
        assert(sign as int * m == (if sign == 1 { m } else { -m })) by (nonlinear_arith)
            requires sign == 1 || sign == -1;
    }

//@ proof offset_standalone before 0 /let total_minutes = /
    proof {
        let m = hours as int * 60 + minutes as int;
        assert(0 <= m <= 1439);
        assert(sign as int * m == (if sign == 1 { m } else { -m })) by (nonlinear_arith)
            requires sign == 1 || sign == -1;
    }
