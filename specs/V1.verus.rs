// Contracts for unit V1: crates/toml_write/src/string.rs  (properties C10, C04)
// The exec functions are NOT in this file: they are extracted from /repo on every run.
// This file holds the oracles (O-class, O-str), lemmas, and the contracts / invariants /
// proof hints that tools/extract.py splices into the extracted text.

//@ header
#![allow(unused_imports, dead_code, unused_variables, unused_mut, unused_assignments)]
use vstd::prelude::*;
use vstd::string::*;
use vstd::utf8::*;
use vstd::slice::*;

//@ prelude

// ======================================================================================
// Assumed contract on core::option (vstd has none): the closure runs exactly when None.
pub assume_specification<T, F: FnOnce() -> Option<T>>[Option::<T>::or_else](o: Option<T>, f: F) -> (r: Option<T>)
    requires o is None ==> f.requires(()),
    ensures o is Some ==> r == o, o is None ==> f.ensures((), r);

// Assumed contract on `&str[range]`: vstd checks the precondition (range valid, both ends on
// char boundaries) and defines `index_postcondition` (result bytes == subrange) but does not
// attach it to `<str as Index<I>>::index`; this attaches it.
pub assume_specification<I: core::slice::SliceIndex<str>>[<str as core::ops::Index<I>>::index](s: &str, i: I) -> (r: &I::Output)
    ensures i.index_postcondition(s, r);

// ======================================================================================
// Ghost writer (rule R3).  The three external_body methods are the assumed effect of
// `fmt::Write for String` behind `write!` (rule R1).
spec fn hexdig(n: int) -> u8 {
    if n < 10 { (0x30 + n) as u8 } else { (0x41 + n - 10) as u8 }
}

spec fn hex4(x: u32) -> Seq<u8> {
    seq![hexdig((x as int / 4096) % 16), hexdig((x as int / 256) % 16), hexdig((x as int / 16) % 16), hexdig(x as int % 16)]
}

struct VWriter { out: Vec<u8> }

impl VWriter {
    #[verifier::external_body]
    fn vw_str(&mut self, s: &str) -> (r: core::fmt::Result)
        ensures final(self).out@ == old(self).out@ + s.spec_bytes(), r is Ok
    { self.out.extend_from_slice(s.as_bytes()); Ok(()) }

    #[verifier::external_body]
    fn vw_hex4(&mut self, x: u32) -> (r: core::fmt::Result)
        requires x < 0x10000
        ensures final(self).out@ == old(self).out@ + hex4(x), r is Ok
    { self.out.extend_from_slice(format!("{:04X}", x).as_bytes()); Ok(()) }

    #[verifier::external_body]
    fn newline(&mut self) -> (r: core::fmt::Result)
        ensures final(self).out@ == old(self).out@ + seq![0x0au8], r is Ok
    { self.out.push(b'\n'); Ok(()) }
}

// ======================================================================================
// O-class: byte classes of the TOML 1.0.0 ABNF (byte level: non-ascii = 80..FF)
spec fn wschar(c: u8) -> bool { c == 0x20 || c == 0x09 }
spec fn non_ascii(c: u8) -> bool { c >= 0x80 }
// basic-unescaped = wschar / %x21 / %x23-5B / %x5D-7E / non-ascii   (mlb-unescaped is identical)
spec fn basic_unescaped(c: u8) -> bool {
    wschar(c) || c == 0x21 || (0x23 <= c && c <= 0x5b) || (0x5d <= c && c <= 0x7e) || non_ascii(c)
}
// literal-char = %x09 / %x20-26 / %x28-7E / non-ascii               (mll-char is identical)
spec fn literal_char(c: u8) -> bool {
    c == 0x09 || (0x20 <= c && c <= 0x26) || (0x28 <= c && c <= 0x7e) || non_ascii(c)
}
// unquoted-key = 1*( ALPHA / DIGIT / %x2D / %x5F )
spec fn unquoted_char(c: u8) -> bool {
    (0x41 <= c && c <= 0x5a) || (0x61 <= c && c <= 0x7a) || (0x30 <= c && c <= 0x39) || c == 0x2d || c == 0x5f
}
// what the writer must not leave verbatim anywhere: C0 controls except TAB and LF, and DEL
spec fn ctrl(c: u8) -> bool { (c <= 0x1f && c != 0x09 && c != 0x0a) || c == 0x7f }

// ======================================================================================
// O-str: token languages and partial, sound decoders  Seq<u8> -> Option<Seq<u8>>
spec fn hexval(c: u8) -> Option<int> {
    if 0x30 <= c && c <= 0x39 { Some(c as int - 0x30) }
    else if 0x41 <= c && c <= 0x46 { Some(c as int - 0x41 + 10) }
    else if 0x61 <= c && c <= 0x66 { Some(c as int - 0x61 + 10) }
    else { None }
}

// escaped = escape escape-seq-char, t[0] == '\\'.  Returns (decoded byte, token length).
// Partial: \uXXXX only below 0x80; \UXXXXXXXX and line-ending backslash answer None.
spec fn dec_escape(t: Seq<u8>) -> Option<(u8, int)> {
    if t.len() < 2 { None }
    else if t[1] == 0x22 { Some((0x22u8, 2int)) }
    else if t[1] == 0x5c { Some((0x5cu8, 2int)) }
    else if t[1] == 0x62 { Some((0x08u8, 2int)) }
    else if t[1] == 0x66 { Some((0x0cu8, 2int)) }
    else if t[1] == 0x6e { Some((0x0au8, 2int)) }
    else if t[1] == 0x72 { Some((0x0du8, 2int)) }
    else if t[1] == 0x74 { Some((0x09u8, 2int)) }
    else if t[1] == 0x75 && t.len() >= 6 && hexval(t[2]) is Some && hexval(t[3]) is Some
        && hexval(t[4]) is Some && hexval(t[5]) is Some {
        let v = hexval(t[2])->0 * 4096 + hexval(t[3])->0 * 256 + hexval(t[4])->0 * 16 + hexval(t[5])->0;
        if v < 0x80 { Some((v as u8, 6int)) } else { None }
    }
    else { None }
}

spec fn cons(c: u8, r: Option<Seq<u8>>) -> Option<Seq<u8>> {
    match r { Some(x) => Some(seq![c] + x), None => None }
}

// *basic-char
spec fn dec_basic_body(t: Seq<u8>) -> Option<Seq<u8>>
    decreases t.len()
{
    if t.len() == 0 { Some(Seq::<u8>::empty()) }
    else if basic_unescaped(t[0]) { cons(t[0], dec_basic_body(t.subrange(1, t.len() as int))) }
    else if t[0] == 0x5c {
        match dec_escape(t) {
            Some((c, n)) => cons(c, dec_basic_body(t.subrange(n, t.len() as int))),
            None => None,
        }
    }
    else { None }
}

// ml-basic-body, with `run` = length of the run of unescaped quotes just before t
// (mlb-quotes = 1*2quotation-mark: a run of three never occurs inside the body)
spec fn dec_mlb_body(t: Seq<u8>, run: nat) -> Option<Seq<u8>>
    decreases t.len()
{
    if t.len() == 0 { Some(Seq::<u8>::empty()) }
    else if t[0] == 0x22 {
        if run >= 2 { None } else { cons(0x22u8, dec_mlb_body(t.subrange(1, t.len() as int), run + 1)) }
    }
    else if basic_unescaped(t[0]) || t[0] == 0x0a { cons(t[0], dec_mlb_body(t.subrange(1, t.len() as int), 0)) }
    else if t[0] == 0x5c {
        match dec_escape(t) {
            Some((c, n)) => cons(c, dec_mlb_body(t.subrange(n, t.len() as int), 0)),
            None => None,
        }
    }
    else { None }
}

// ml-literal-body, `run` = run of apostrophes just before t (mll-quotes = 1*2apostrophe)
spec fn dec_mll_body(t: Seq<u8>, run: nat) -> Option<Seq<u8>>
    decreases t.len()
{
    if t.len() == 0 { Some(Seq::<u8>::empty()) }
    else if t[0] == 0x27 {
        if run >= 2 { None } else { cons(0x27u8, dec_mll_body(t.subrange(1, t.len() as int), run + 1)) }
    }
    else if literal_char(t[0]) || t[0] == 0x0a { cons(t[0], dec_mll_body(t.subrange(1, t.len() as int), 0)) }
    else { None }
}

// "A newline immediately following the opening delimiter will be trimmed."
spec fn trim_first_nl(x: Seq<u8>) -> Seq<u8> {
    if x.len() > 0 && x[0] == 0x0a { x.subrange(1, x.len() as int) } else { x }
}

spec fn all_literal(t: Seq<u8>) -> bool {
    forall|i: int| 0 <= i < t.len() ==> literal_char(#[trigger] t[i])
}

// mll-char / apostrophe / LF: the alphabet of ml-literal-body
spec fn all_mll(t: Seq<u8>) -> bool {
    forall|i: int| 0 <= i < t.len() ==> (literal_char(#[trigger] t[i]) || t[i] == 0x27 || t[i] == 0x0a)
}

// basic-string = quotation-mark *basic-char quotation-mark
spec fn dec_basic(tok: Seq<u8>) -> Option<Seq<u8>> {
    if tok.len() >= 2 && tok[0] == 0x22 && tok[tok.len() - 1] == 0x22 {
        dec_basic_body(tok.subrange(1, tok.len() - 1))
    } else { None }
}

// literal-string = apostrophe *literal-char apostrophe
spec fn dec_literal(tok: Seq<u8>) -> Option<Seq<u8>> {
    if tok.len() >= 2 && tok[0] == 0x27 && tok[tok.len() - 1] == 0x27
        && all_literal(tok.subrange(1, tok.len() - 1)) {
        Some(tok.subrange(1, tok.len() - 1))
    } else { None }
}

// ml-basic-string = ml-basic-string-delim [ newline ] ml-basic-body ml-basic-string-delim
spec fn dec_ml_basic(tok: Seq<u8>) -> Option<Seq<u8>> {
    if tok.len() >= 6 && tok[0] == 0x22 && tok[1] == 0x22 && tok[2] == 0x22
        && tok[tok.len() - 1] == 0x22 && tok[tok.len() - 2] == 0x22 && tok[tok.len() - 3] == 0x22 {
        dec_mlb_body(trim_first_nl(tok.subrange(3, tok.len() - 3)), 0)
    } else { None }
}

// ml-literal-string = ml-literal-string-delim [ newline ] ml-literal-body ml-literal-string-delim
spec fn dec_ml_literal(tok: Seq<u8>) -> Option<Seq<u8>> {
    if tok.len() >= 6 && tok[0] == 0x27 && tok[1] == 0x27 && tok[2] == 0x27
        && tok[tok.len() - 1] == 0x27 && tok[tok.len() - 2] == 0x27 && tok[tok.len() - 3] == 0x27 {
        dec_mll_body(trim_first_nl(tok.subrange(3, tok.len() - 3)), 0)
    } else { None }
}

// unquoted-key
spec fn dec_unquoted(tok: Seq<u8>) -> Option<Seq<u8>> {
    if tok.len() > 0 && all_unquoted(tok, tok.len() as int) { Some(tok) } else { None }
}

// ======================================================================================
// metrics oracles
// length of the run of q ending just before position i
spec fn run_end(b: Seq<u8>, q: u8, i: int) -> int
    decreases i
{
    if i <= 0 || i > b.len() { 0 } else if b[i - 1] == q { run_end(b, q, i - 1) + 1 } else { 0 }
}

// longest run of q inside b[..i]
spec fn run_max(b: Seq<u8>, q: u8, i: int) -> int
    decreases i
{
    if i <= 0 || i > b.len() { 0 } else {
        let m = run_max(b, q, i - 1);
        let e = run_end(b, q, i);
        if e > m { e } else { m }
    }
}

spec fn sat255(x: int) -> int { if x > 255 { 255 } else { x } }

spec fn has_byte(b: Seq<u8>, q: u8, i: int) -> bool {
    exists|j: int| 0 <= j < i && b[j] == q
}

spec fn has_ctrl(b: Seq<u8>, i: int) -> bool {
    exists|j: int| 0 <= j < i && ctrl(#[trigger] b[j])
}

// newline counts as an escape code for keys (no multi-line keys)
spec fn has_ctrl_or_nl(b: Seq<u8>, i: int) -> bool {
    exists|j: int| 0 <= j < i && (ctrl(#[trigger] b[j]) || b[j] == 0x0a)
}

spec fn all_unquoted(b: Seq<u8>, i: int) -> bool {
    forall|j: int| 0 <= j < i ==> unquoted_char(#[trigger] b[j])
}

proof fn lemma_run_bounds(b: Seq<u8>, q: u8, i: int)
    requires 0 <= i <= b.len(),
    ensures 0 <= run_end(b, q, i) <= run_max(b, q, i) <= i,
    decreases i
{
    if i > 0 { lemma_run_bounds(b, q, i - 1); }
}

proof fn lemma_run_max_mono(b: Seq<u8>, q: u8, i: int, j: int)
    requires 0 <= i <= j <= b.len(),
    ensures run_max(b, q, i) <= run_max(b, q, j),
    decreases j - i
{
    if i < j { lemma_run_max_mono(b, q, i, j - 1); }
}

// run_max == 0 exactly when q does not occur
proof fn lemma_run_max_zero(b: Seq<u8>, q: u8, i: int)
    requires 0 <= i <= b.len(),
    ensures (run_max(b, q, i) == 0) == !has_byte(b, q, i),
    decreases i
{
    if i > 0 {
        lemma_run_max_zero(b, q, i - 1);
        lemma_run_bounds(b, q, i - 1);
        lemma_run_bounds(b, q, i);
        if b[i - 1] == q {
            assert(has_byte(b, q, i));
        } else {
            if has_byte(b, q, i) {
                let j = choose|j: int| 0 <= j < i && b[j] == q;
                assert(0 <= j < i - 1 && b[j] == q);
                assert(has_byte(b, q, i - 1));
            }
        }
    }
}

// ======================================================================================
// style preconditions of the writer (what each style can represent)
spec fn style_ok(enc: Option<Encoding>, b: Seq<u8>, newline: bool) -> bool {
    match enc {
        None => b.len() > 0 && all_unquoted(b, b.len() as int),
        Some(Encoding::LiteralString) => all_literal(b),
        Some(Encoding::MlLiteralString) =>
            all_mll(b)
            && run_max(b, 0x27, b.len() as int) <= 2
            && (b.len() > 0 && b[0] == 0x0a ==> newline),
        Some(Encoding::BasicString) => true,
        Some(Encoding::MlBasicString) => (b.len() > 0 && b[0] == 0x0a ==> newline),
    }
}

spec fn dec_style(enc: Option<Encoding>, tok: Seq<u8>) -> Option<Seq<u8>> {
    match enc {
        None => dec_unquoted(tok),
        Some(Encoding::LiteralString) => dec_literal(tok),
        Some(Encoding::MlLiteralString) => dec_ml_literal(tok),
        Some(Encoding::BasicString) => dec_basic(tok),
        Some(Encoding::MlBasicString) => dec_ml_basic(tok),
    }
}

// ======================================================================================
// proof device: the byte-by-byte image of the escaping loop (NOT part of any contract)
spec fn maxq(ml: bool) -> nat { if ml { 2 } else { 0 } }

spec fn enc_b(b: Seq<u8>, ml: bool, run: nat) -> Seq<u8>
    decreases b.len()
{
    if b.len() == 0 { Seq::<u8>::empty() } else {
        let c = b[0];
        let rest = b.subrange(1, b.len() as int);
        if c == 0x22 {
            if run + 1 > maxq(ml) { seq![0x5cu8, 0x22u8] + enc_b(rest, ml, 0) }
            else { seq![0x22u8] + enc_b(rest, ml, run + 1) }
        }
        else if c == 0x08 { seq![0x5cu8, 0x62u8] + enc_b(rest, ml, 0) }
        else if c == 0x09 { seq![0x5cu8, 0x74u8] + enc_b(rest, ml, 0) }
        else if c == 0x0a { if ml { seq![0x0au8] + enc_b(rest, ml, 0) } else { seq![0x5cu8, 0x6eu8] + enc_b(rest, ml, 0) } }
        else if c == 0x0c { seq![0x5cu8, 0x66u8] + enc_b(rest, ml, 0) }
        else if c == 0x0d { seq![0x5cu8, 0x72u8] + enc_b(rest, ml, 0) }
        else if c == 0x5c { seq![0x5cu8, 0x5cu8] + enc_b(rest, ml, 0) }
        else if c <= 0x1f || c == 0x7f { seq![0x5cu8, 0x75u8] + hex4(c as u32) + enc_b(rest, ml, 0) }
        else { seq![c] + enc_b(rest, ml, 0) }
    }
}

proof fn lemma_hex4_roundtrip(c: u8)
    requires c < 0x80,
    ensures
        hex4(c as u32).len() == 4,
        hexval(hex4(c as u32)[0]) == Some(0int),
        hexval(hex4(c as u32)[1]) == Some(0int),
        hexval(hex4(c as u32)[2]) == Some(c as int / 16),
        hexval(hex4(c as u32)[3]) == Some(c as int % 16),
{
}

// dec_basic_body inverts enc_b(_, false, _)
proof fn lemma_dec_enc_basic(b: Seq<u8>)
    ensures dec_basic_body(enc_b(b, false, 0)) == Some(b),
    decreases b.len()
{
    if b.len() == 0 {
    } else {
        let c = b[0];
        let rest = b.subrange(1, b.len() as int);
        lemma_dec_enc_basic(rest);
        let r = enc_b(rest, false, 0);
        let e = enc_b(b, false, 0);
        assert(b =~= seq![c] + rest);
        if c == 0x22 || c == 0x08 || c == 0x09 || c == 0x0a || c == 0x0c || c == 0x0d || c == 0x5c {
            let x: u8 = if c == 0x22 { 0x22 } else if c == 0x08 { 0x62 } else if c == 0x09 { 0x74 }
                else if c == 0x0a { 0x6e } else if c == 0x0c { 0x66 } else if c == 0x0d { 0x72 } else { 0x5c };
            assert(e == seq![0x5cu8, x] + r);
            assert(e[0] == 0x5c && e[1] == x);
            assert(e.subrange(2, e.len() as int) =~= r);
            assert(dec_escape(e) == Some((c, 2int)));
        } else if c <= 0x1f || c == 0x7f {
            lemma_hex4_roundtrip(c);
            let h = hex4(c as u32);
            assert(e == seq![0x5cu8, 0x75u8] + h + r);
            assert(e[0] == 0x5c && e[1] == 0x75 && e[2] == h[0] && e[3] == h[1] && e[4] == h[2] && e[5] == h[3]);
            assert(e.subrange(6, e.len() as int) =~= r);
            assert(dec_escape(e) == Some((c, 6int)));
        } else {
            assert(e == seq![c] + r);
            assert(e[0] == c);
            assert(basic_unescaped(c));
            assert(e.subrange(1, e.len() as int) =~= r);
        }
    }
}

// dec_mlb_body inverts enc_b(_, true, _), the decoder starting in the same run state
proof fn lemma_dec_enc_ml(b: Seq<u8>, run: nat)
    requires run <= 2,
    ensures dec_mlb_body(enc_b(b, true, run), run) == Some(b),
    decreases b.len()
{
    if b.len() == 0 {
    } else {
        let c = b[0];
        let rest = b.subrange(1, b.len() as int);
        let e = enc_b(b, true, run);
        assert(b =~= seq![c] + rest);
        if c == 0x22 && run + 1 <= 2 {
            lemma_dec_enc_ml(rest, run + 1);
            let r = enc_b(rest, true, run + 1);
            assert(e == seq![0x22u8] + r);
            assert(e[0] == 0x22);
            assert(e.subrange(1, e.len() as int) =~= r);
        } else {
            lemma_dec_enc_ml(rest, 0);
            let r = enc_b(rest, true, 0);
            if c == 0x22 || c == 0x08 || c == 0x09 || c == 0x0c || c == 0x0d || c == 0x5c {
                let x: u8 = if c == 0x22 { 0x22 } else if c == 0x08 { 0x62 } else if c == 0x09 { 0x74 }
                    else if c == 0x0c { 0x66 } else if c == 0x0d { 0x72 } else { 0x5c };
                assert(e == seq![0x5cu8, x] + r);
                assert(e[0] == 0x5c && e[1] == x);
                assert(e.subrange(2, e.len() as int) =~= r);
                assert(dec_escape(e) == Some((c, 2int)));
            } else if c == 0x0a {
                assert(e == seq![0x0au8] + r);
                assert(e[0] == 0x0a);
                assert(e.subrange(1, e.len() as int) =~= r);
            } else if c <= 0x1f || c == 0x7f {
                lemma_hex4_roundtrip(c);
                let h = hex4(c as u32);
                assert(e == seq![0x5cu8, 0x75u8] + h + r);
                assert(e[0] == 0x5c && e[1] == 0x75 && e[2] == h[0] && e[3] == h[1] && e[4] == h[2] && e[5] == h[3]);
                assert(e.subrange(6, e.len() as int) =~= r);
                assert(dec_escape(e) == Some((c, 6int)));
            } else {
                assert(e == seq![c] + r);
                assert(e[0] == c);
                assert(basic_unescaped(c));
                assert(e.subrange(1, e.len() as int) =~= r);
            }
        }
    }
}

// the first emitted byte is LF only if the first input byte is LF
proof fn lemma_enc_first_nl(b: Seq<u8>, ml: bool, run: nat)
    ensures enc_b(b, ml, run).len() > 0 && enc_b(b, ml, run)[0] == 0x0a ==> b.len() > 0 && b[0] == 0x0a,
{
    if b.len() > 0 {
        let c = b[0];
        let rest = b.subrange(1, b.len() as int);
        if c != 0x0a {
            if c == 0x22 {
            } else if c <= 0x1f || c == 0x7f {
                if c != 0x08 && c != 0x09 && c != 0x0c && c != 0x0d {
                    assert(enc_b(b, ml, run) == seq![0x5cu8, 0x75u8] + hex4(c as u32) + enc_b(rest, ml, 0));
                }
            }
        }
    }
}

// ml-literal body: apostrophe runs bounded by 2 everywhere  ==>  the decoder accepts from any position
proof fn lemma_dec_mll(b: Seq<u8>, i: int)
    requires
        0 <= i <= b.len(),
        all_mll(b),
        run_max(b, 0x27, b.len() as int) <= 2,
    ensures dec_mll_body(b.subrange(i, b.len() as int), run_end(b, 0x27, i) as nat) == Some(b.subrange(i, b.len() as int)),
    decreases b.len() - i
{
    let t = b.subrange(i, b.len() as int);
    lemma_run_bounds(b, 0x27, i);
    if i < b.len() {
        lemma_dec_mll(b, i + 1);
        let rest = b.subrange(i + 1, b.len() as int);
        assert(t.subrange(1, t.len() as int) =~= rest);
        assert(t[0] == b[i]);
        assert(t =~= seq![b[i]] + rest);
        assert(literal_char(b[i]) || b[i] == 0x27 || b[i] == 0x0a);
        if b[i] == 0x27 {
            lemma_run_bounds(b, 0x27, i + 1);
            lemma_run_max_mono(b, 0x27, i + 1, b.len() as int);
            assert(run_end(b, 0x27, i + 1) == run_end(b, 0x27, i) + 1);
        } else {
            assert(run_end(b, 0x27, i + 1) == 0);
        }
    } else {
        assert(t =~= Seq::<u8>::empty());
    }
}

// ======================================================================================
// UTF-8 facts about &str (vstd::utf8) needed for the slicing preconditions
proof fn lemma_str_bytes_valid(s: &str)
    ensures valid_utf8(s.spec_bytes()), (s@.len() == 0) == (s.spec_bytes().len() == 0)
{
    encode_utf8_valid_utf8(s@);
    if s@.len() != 0 {
        assert(encode_utf8(s@) == encode_scalar(s@[0] as u32) + encode_utf8(s@.drop_first()));
        assert(encode_scalar(s@[0] as u32).len() > 0);
    }
}

// an ASCII byte starts and ends a scalar value
proof fn lemma_ascii_boundary(b: Seq<u8>, i: int)
    requires valid_utf8(b), 0 <= i < b.len(), b[i] < 0x80,
    ensures is_char_boundary(b, i), is_char_boundary(b, i + 1),
{
    is_char_boundary_iff_not_is_continuation_byte(b, i);
    valid_utf8_split(b, i);
    let t = b.subrange(i, b.len() as int);
    assert(t[0] == b[i]);
    assert(valid_first_scalar(t));
    assert(length_of_first_scalar(t) == 1);
    let u = pop_first_scalar(t);
    assert(u =~= b.subrange(i + 1, b.len() as int));
    assert(valid_utf8(u));
    if i + 1 == b.len() {
        is_char_boundary_start_end_of_seq(b);
    } else {
        assert(valid_first_scalar(u));
        assert(u[0] == b[i + 1]);
        assert(!is_continuation_byte(b[i + 1]));
        is_char_boundary_iff_not_is_continuation_byte(b, i + 1);
    }
}

proof fn lemma_ascii_lit(s: &str)
    requires is_ascii_chars(s@)
    ensures s.spec_bytes().len() == s@.len(),
        forall|i: int| 0 <= i < s@.len() ==> s@[i] as u32 as u8 == #[trigger] s.spec_bytes()[i] && (s@[i] as u32) < 128
{
    is_ascii_chars_encode_utf8(s@);
    assert forall|i: int| 0 <= i < s@.len() implies s@[i] as u32 as u8 == #[trigger] s.spec_bytes()[i] && (s@[i] as u32) < 128 by {
        let c = s@[i];
    }
}

// the bytes of every string literal that occurs in write_toml_value
proof fn lemma_lits()
    ensures
        "'".spec_bytes() == seq![0x27u8],
        "\"".spec_bytes() == seq![0x22u8],
        "'''".spec_bytes() == seq![0x27u8, 0x27u8, 0x27u8],
        "\"\"\"".spec_bytes() == seq![0x22u8, 0x22u8, 0x22u8],
        "".spec_bytes() == Seq::<u8>::empty(),
        r#"\""#.spec_bytes() == seq![0x5cu8, 0x22u8],
        r#"\b"#.spec_bytes() == seq![0x5cu8, 0x62u8],
        r#"\t"#.spec_bytes() == seq![0x5cu8, 0x74u8],
        r#"\n"#.spec_bytes() == seq![0x5cu8, 0x6eu8],
        r#"\f"#.spec_bytes() == seq![0x5cu8, 0x66u8],
        r#"\r"#.spec_bytes() == seq![0x5cu8, 0x72u8],
        r#"\\"#.spec_bytes() == seq![0x5cu8, 0x5cu8],
        "\\u".spec_bytes() == seq![0x5cu8, 0x75u8],
{
    reveal_strlit("'"); reveal_strlit("\""); reveal_strlit("'''"); reveal_strlit("\"\"\""); reveal_strlit("");
    reveal_strlit(r#"\""#); reveal_strlit(r#"\b"#); reveal_strlit(r#"\t"#); reveal_strlit(r#"\n"#);
    reveal_strlit(r#"\f"#); reveal_strlit(r#"\r"#); reveal_strlit(r#"\\"#); reveal_strlit("\\u");
    lemma_ascii_lit("'"); lemma_ascii_lit("\""); lemma_ascii_lit("'''"); lemma_ascii_lit("\"\"\""); lemma_ascii_lit("");
    lemma_ascii_lit(r#"\""#); lemma_ascii_lit(r#"\b"#); lemma_ascii_lit(r#"\t"#); lemma_ascii_lit(r#"\n"#);
    lemma_ascii_lit(r#"\f"#); lemma_ascii_lit(r#"\r"#); lemma_ascii_lit(r#"\\"#); lemma_ascii_lit("\\u");
    assert("'".spec_bytes() =~= seq![0x27u8]);
    assert("\"".spec_bytes() =~= seq![0x22u8]);
    assert("'''".spec_bytes() =~= seq![0x27u8, 0x27u8, 0x27u8]);
    assert("\"\"\"".spec_bytes() =~= seq![0x22u8, 0x22u8, 0x22u8]);
    assert("".spec_bytes() =~= Seq::<u8>::empty());
    assert(r#"\""#.spec_bytes() =~= seq![0x5cu8, 0x22u8]);
    assert(r#"\b"#.spec_bytes() =~= seq![0x5cu8, 0x62u8]);
    assert(r#"\t"#.spec_bytes() =~= seq![0x5cu8, 0x74u8]);
    assert(r#"\n"#.spec_bytes() =~= seq![0x5cu8, 0x6eu8]);
    assert(r#"\f"#.spec_bytes() =~= seq![0x5cu8, 0x66u8]);
    assert(r#"\r"#.spec_bytes() =~= seq![0x5cu8, 0x72u8]);
    assert(r#"\\"#.spec_bytes() =~= seq![0x5cu8, 0x5cu8]);
    assert("\\u".spec_bytes() =~= seq![0x5cu8, 0x75u8]);
}

// the token the writer is supposed to produce, piecewise
spec fn delim_of(enc: Option<Encoding>) -> Seq<u8> {
    match enc {
        None => Seq::<u8>::empty(),
        Some(Encoding::LiteralString) => seq![0x27u8],
        Some(Encoding::BasicString) => seq![0x22u8],
        Some(Encoding::MlLiteralString) => seq![0x27u8, 0x27u8, 0x27u8],
        Some(Encoding::MlBasicString) => seq![0x22u8, 0x22u8, 0x22u8],
    }
}

spec fn is_ml_of(enc: Option<Encoding>) -> bool {
    enc == Some(Encoding::MlLiteralString) || enc == Some(Encoding::MlBasicString)
}

spec fn nl_of(enc: Option<Encoding>, newline: bool) -> Seq<u8> {
    if newline && is_ml_of(enc) { seq![0x0au8] } else { Seq::<u8>::empty() }
}

spec fn body_of(enc: Option<Encoding>, b: Seq<u8>) -> Seq<u8> {
    match enc {
        Some(Encoding::BasicString) => enc_b(b, false, 0),
        Some(Encoding::MlBasicString) => enc_b(b, true, 0),
        _ => b,
    }
}

proof fn lemma_token_unquoted(b: Seq<u8>)
    requires style_ok(None, b, false),
    ensures dec_unquoted(Seq::<u8>::empty() + Seq::<u8>::empty() + b + Seq::<u8>::empty()) == Some(b),
{
    assert(Seq::<u8>::empty() + Seq::<u8>::empty() + b + Seq::<u8>::empty() =~= b);
}

proof fn lemma_token_literal(b: Seq<u8>)
    requires all_literal(b),
    ensures dec_literal(seq![0x27u8] + Seq::<u8>::empty() + b + seq![0x27u8]) == Some(b),
{
    let tok = seq![0x27u8] + Seq::<u8>::empty() + b + seq![0x27u8];
    assert(tok.subrange(1, tok.len() - 1) =~= b);
}

proof fn lemma_token_basic(b: Seq<u8>)
    ensures dec_basic(seq![0x22u8] + Seq::<u8>::empty() + enc_b(b, false, 0) + seq![0x22u8]) == Some(b),
{
    let tok = seq![0x22u8] + Seq::<u8>::empty() + enc_b(b, false, 0) + seq![0x22u8];
    lemma_dec_enc_basic(b);
    assert(tok.subrange(1, tok.len() - 1) =~= enc_b(b, false, 0));
}

proof fn lemma_token_ml_literal(b: Seq<u8>, newline: bool)
    requires style_ok(Some(Encoding::MlLiteralString), b, newline),
    ensures dec_ml_literal(seq![0x27u8, 0x27u8, 0x27u8] + nl_of(Some(Encoding::MlLiteralString), newline) + b + seq![0x27u8, 0x27u8, 0x27u8]) == Some(b),
{
    let d = seq![0x27u8, 0x27u8, 0x27u8];
    let nl = nl_of(Some(Encoding::MlLiteralString), newline);
    let tok = d + nl + b + d;
    let x = tok.subrange(3, tok.len() - 3);
    assert(x =~= nl + b);
    assert(trim_first_nl(x) =~= b);
    lemma_dec_mll(b, 0);
    assert(b.subrange(0, b.len() as int) =~= b);
}

proof fn lemma_token_ml_basic(b: Seq<u8>, newline: bool)
    requires style_ok(Some(Encoding::MlBasicString), b, newline),
    ensures dec_ml_basic(seq![0x22u8, 0x22u8, 0x22u8] + nl_of(Some(Encoding::MlBasicString), newline) + enc_b(b, true, 0) + seq![0x22u8, 0x22u8, 0x22u8]) == Some(b),
{
    let d = seq![0x22u8, 0x22u8, 0x22u8];
    let nl = nl_of(Some(Encoding::MlBasicString), newline);
    let body = enc_b(b, true, 0);
    let tok = d + nl + body + d;
    let x = tok.subrange(3, tok.len() - 3);
    assert(x =~= nl + body);
    lemma_enc_first_nl(b, true, 0);
    assert(trim_first_nl(x) =~= body);
    lemma_dec_enc_ml(b, 0);
}

// every style: the intended token decodes (per the TOML grammar of that style) to b
proof fn lemma_token(enc: Option<Encoding>, newline: bool, b: Seq<u8>)
    requires style_ok(enc, b, newline),
    ensures dec_style(enc, delim_of(enc) + nl_of(enc, newline) + body_of(enc, b) + delim_of(enc)) == Some(b),
{
    match enc {
        None => { lemma_token_unquoted(b); }
        Some(Encoding::LiteralString) => { lemma_token_literal(b); }
        Some(Encoding::BasicString) => { lemma_token_basic(b); }
        Some(Encoding::MlLiteralString) => { lemma_token_ml_literal(b, newline); }
        Some(Encoding::MlBasicString) => { lemma_token_ml_basic(b, newline); }
    }
}

proof fn lemma_join3(o: Seq<u8>, u: Seq<u8>, e: Seq<u8>, r: Seq<u8>)
    ensures (o + u + e) + r == o + (u + e + r)
{
    assert((o + u + e) + r =~= o + (u + e + r));
}

proof fn lemma_join4(o: Seq<u8>, u: Seq<u8>, e: Seq<u8>, h: Seq<u8>, r: Seq<u8>)
    ensures (o + u + e + h) + r == o + (u + e + h + r)
{
    assert((o + u + e + h) + r =~= o + (u + e + h + r));
}

spec fn opt_bytes(o: Option<&str>) -> Seq<u8> {
    match o { Some(x) => x.spec_bytes(), None => Seq::<u8>::empty() }
}

broadcast proof fn lemma_assoc(a: Seq<u8>, b: Seq<u8>, c: Seq<u8>)
    ensures #[trigger] (a + (b + c)) == a + b + c
{
    assert(a + (b + c) =~= a + b + c);
}

//@ contract ValueMetrics::new ret=r
    ensures r.max_seq_single_quotes == 0, r.max_seq_double_quotes == 0, !r.escape_codes, !r.escape, !r.newline

//@ contract ValueMetrics::calculate ret=r
    ensures r.is_for(s.spec_bytes())

//@ loop ValueMetrics::calculate 0 iter=it
    invariant
        it.seq().len() == s.spec_bytes().len(),
        forall|j: int| 0 <= j < it.seq().len() ==> *it.seq()[j] == s.spec_bytes()[j],
        prev_single_quotes as int == sat255(run_end(s.spec_bytes(), 0x27, it.index@ as int)),
        prev_double_quotes as int == sat255(run_end(s.spec_bytes(), 0x22, it.index@ as int)),
        metrics.max_seq_single_quotes as int == sat255(run_max(s.spec_bytes(), 0x27, it.index@ as int)),
        metrics.max_seq_double_quotes as int == sat255(run_max(s.spec_bytes(), 0x22, it.index@ as int)),
        metrics.escape_codes == has_ctrl(s.spec_bytes(), it.index@ as int),
        metrics.escape == has_byte(s.spec_bytes(), 0x5c, it.index@ as int),
        metrics.newline == has_byte(s.spec_bytes(), 0x0a, it.index@ as int),

//@ proof ValueMetrics::calculate before 0 /if \*byte == b'\\''/
            proof {
                let i = it.index@ as int;
                let b = s.spec_bytes();
                assert(*byte == b[i]);
                lemma_run_bounds(b, 0x27, i);
                lemma_run_bounds(b, 0x22, i);
                lemma_run_bounds(b, 0x27, i + 1);
                lemma_run_bounds(b, 0x22, i + 1);
            }

//@ contract KeyMetrics::new ret=r
    ensures r.unquoted, !r.single_quotes, !r.double_quotes, !r.escape_codes, !r.escape

//@ contract KeyMetrics::calculate ret=r
    ensures r.is_for(s.spec_bytes())

//@ loop KeyMetrics::calculate 0 iter=it
    invariant
        it.seq().len() == s.spec_bytes().len(),
        forall|j: int| 0 <= j < it.seq().len() ==> *it.seq()[j] == s.spec_bytes()[j],
        metrics.unquoted == (s.spec_bytes().len() > 0 && all_unquoted(s.spec_bytes(), it.index@ as int)),
        metrics.single_quotes == has_byte(s.spec_bytes(), 0x27, it.index@ as int),
        metrics.double_quotes == has_byte(s.spec_bytes(), 0x22, it.index@ as int),
        metrics.escape_codes == has_ctrl_or_nl(s.spec_bytes(), it.index@ as int),
        metrics.escape == has_byte(s.spec_bytes(), 0x5c, it.index@ as int),

//@ proof KeyMetrics::calculate before 0 /metrics.unquoted = !s.is_empty\(\);/
        proof { lemma_str_bytes_valid(s); }

//@ proof KeyMetrics::calculate before 0 /if !matches!\(\*byte/
            proof {
                let i = it.index@ as int;
                assert(*byte == s.spec_bytes()[i]);
            }

//@ contract TomlStringBuilder::new ret=r
    ensures r.wf(), r.decoded == decoded

//@ contract TomlStringBuilder::as_literal ret=r
    requires self.wf()
    ensures r is Some ==> (r->0).ok() && (r->0).decoded == self.decoded && (r->0).encoding == Encoding::LiteralString

//@ contract TomlStringBuilder::as_ml_literal ret=r
    requires self.wf()
    ensures r is Some ==> (r->0).ok() && (r->0).decoded == self.decoded && (r->0).encoding == Encoding::MlLiteralString

//@ contract TomlStringBuilder::as_basic_pretty ret=r
    requires self.wf()
    ensures r is Some ==> (r->0).ok() && (r->0).decoded == self.decoded && (r->0).encoding == Encoding::BasicString

//@ contract TomlStringBuilder::as_ml_basic_pretty ret=r
    requires self.wf()
    ensures r is Some ==> (r->0).ok() && (r->0).decoded == self.decoded && (r->0).encoding == Encoding::MlBasicString

//@ contract TomlStringBuilder::as_basic ret=r
    requires self.wf()
    ensures r.ok(), r.decoded == self.decoded, r.encoding == Encoding::BasicString

//@ contract TomlStringBuilder::as_ml_basic ret=r
    requires self.wf()
    ensures r.ok(), r.decoded == self.decoded, r.encoding == Encoding::MlBasicString

//@ contract TomlStringBuilder::as_default ret=r
    requires self.wf()
    ensures r.ok(), r.decoded == self.decoded

//@ closure TomlStringBuilder::as_default 0 ret=o:Option<TomlString<'s>>
    requires self.wf()
    ensures o is Some ==> (o->0).ok() && (o->0).decoded == self.decoded
//@ closure TomlStringBuilder::as_default 1 ret=o:Option<TomlString<'s>>
    requires self.wf()
    ensures o is Some ==> (o->0).ok() && (o->0).decoded == self.decoded
//@ closure TomlStringBuilder::as_default 2 ret=o:Option<TomlString<'s>>
    requires self.wf()
    ensures o is Some ==> (o->0).ok() && (o->0).decoded == self.decoded
//@ closure TomlStringBuilder::as_default 3 ret=o:TomlString<'s>
    requires self.wf()
    ensures o.ok() && o.decoded == self.decoded

//@ closure TomlKeyBuilder::as_default 0 ret=o:Option<TomlKey<'s>>
    requires self.wf()
    ensures o is Some ==> (o->0).ok() && (o->0).decoded == self.decoded
//@ closure TomlKeyBuilder::as_default 1 ret=o:Option<TomlKey<'s>>
    requires self.wf()
    ensures o is Some ==> (o->0).ok() && (o->0).decoded == self.decoded
//@ closure TomlKeyBuilder::as_default 2 ret=o:TomlKey<'s>
    requires self.wf()
    ensures o.ok() && o.decoded == self.decoded

//@ proof TomlStringBuilder::as_literal before 0 /if self.metrics.escape_codes/
        proof { self.lemma_literal_ok(); }

//@ proof TomlStringBuilder::as_ml_literal before 0 /if self.metrics.escape_codes/
        proof { self.lemma_literal_ok(); }

//@ proof TomlStringBuilder::as_ml_basic before 0 /TomlString \{/
        proof { self.lemma_literal_ok(); }

//@ contract TomlKeyBuilder::new ret=r
    ensures r.wf(), r.decoded == decoded

//@ contract TomlKeyBuilder::as_unquoted ret=r
    requires self.wf()
    ensures r is Some ==> (r->0).ok() && (r->0).decoded == self.decoded && (r->0).encoding is None

//@ contract TomlKeyBuilder::as_literal ret=r
    requires self.wf()
    ensures r is Some ==> (r->0).ok() && (r->0).decoded == self.decoded && (r->0).encoding == Some(Encoding::LiteralString)

//@ contract TomlKeyBuilder::as_basic_pretty ret=r
    requires self.wf()
    ensures r is Some ==> (r->0).ok() && (r->0).decoded == self.decoded && (r->0).encoding == Some(Encoding::BasicString)

//@ contract TomlKeyBuilder::as_basic ret=r
    requires self.wf()
    ensures r.ok(), r.decoded == self.decoded, r.encoding == Some(Encoding::BasicString)

//@ contract TomlKeyBuilder::as_default ret=r
    requires self.wf()
    ensures r.ok(), r.decoded == self.decoded

//@ proof TomlKeyBuilder::as_literal before 0 /if self.metrics.escape_codes/
        proof { self.lemma_key_literal_ok(); }

//@ contract write_toml_value ret=res
    requires
        style_ok(encoding, decoded.spec_bytes(), newline),
    ensures
        res is Ok,
        old(writer).out@.len() <= final(writer).out@.len(),
        final(writer).out@.subrange(0, old(writer).out@.len() as int) == old(writer).out@,
        dec_style(encoding, final(writer).out@.subrange(old(writer).out@.len() as int, final(writer).out@.len() as int))
            == Some(decoded.spec_bytes()),

//@ proof write_toml_value before 0 /let delimiter = match encoding/
    let ghost out0 = writer.out@;
    let ghost ball = decoded.spec_bytes();
    proof { lemma_lits(); lemma_str_bytes_valid(decoded); }

//@ proof write_toml_value before 0 /let mut stream = decoded;/
        let ghost out_pre = writer.out@;

//@ loop write_toml_value 0
            invariant
                max_seq_double_quotes == maxq(is_ml) as int,
                writer.out@ + enc_b(stream.spec_bytes(), is_ml, 0) == out_pre + enc_b(ball, is_ml, 0),
            decreases stream.spec_bytes().len()

//@ proof write_toml_value before 0 /let mut unescaped_end = 0;/
            let ghost out_iter = writer.out@;
            let ghost sb = stream.spec_bytes();
            let ghost n = sb.len() as int;
            proof { lemma_str_bytes_valid(stream); lemma_lits(); }

//@ proof write_toml_value after 0 /let mut seq_double_quotes = 0;/
            proof {
                assert(sb.subrange(0, n) =~= sb);
                assert(sb.subrange(0, 0) + enc_b(sb, is_ml, 0) =~= enc_b(sb, is_ml, 0));
            }

//@ loop write_toml_value 1 iter=it
                invariant_except_break
                    unescaped_end == i,
                    escaped is None,
                    0 <= seq_double_quotes <= max_seq_double_quotes,
                    enc_b(sb, is_ml, 0) == sb.subrange(0, i as int) + enc_b(sb.subrange(i as int, n), is_ml, seq_double_quotes as nat),
                invariant
                    sb == stream.spec_bytes(),
                    n == sb.len(),
                    max_seq_double_quotes == maxq(is_ml) as int,
                ensures
                    unescaped_end <= n,
                    escaped is Some ==> unescaped_end < n && sb[unescaped_end as int] < 0x80
                        && enc_b(sb, is_ml, 0) == sb.subrange(0, unescaped_end as int) + opt_bytes(escaped)
                            + enc_b(sb.subrange(unescaped_end + 1, n), is_ml, 0),
                    escaped is None && unescaped_end < n ==> sb[unescaped_end as int] < 0x80
                        && enc_b(sb, is_ml, 0) == sb.subrange(0, unescaped_end as int) + seq![0x5cu8, 0x75u8]
                            + hex4(sb[unescaped_end as int] as u32) + enc_b(sb.subrange(unescaped_end + 1, n), is_ml, 0),
                    escaped is None && unescaped_end == n ==> enc_b(sb, is_ml, 0) == sb,

//@ proof write_toml_value before 0 /if \*b == b'"' \{/
                let ghost run0 = seq_double_quotes as nat;
                proof {
                    broadcast use lemma_assoc;
                    lemma_lits();
                    let s = sb.subrange(i as int, n);
                    assert(s.len() > 0 && s[0] == sb[i as int] && *b == sb[i as int]);
                    assert(s.subrange(1, s.len() as int) =~= sb.subrange(i + 1, n));
                    assert(sb.subrange(0, i as int) + seq![sb[i as int]] =~= sb.subrange(0, i + 1));
                }

//@ proof write_toml_value after 0 /unescaped_end = i \+ 1;/
                proof {
                    broadcast use lemma_assoc;
                    let x = enc_b(sb.subrange(i + 1, n), is_ml, seq_double_quotes as nat);
                    assert(enc_b(sb.subrange(i as int, n), is_ml, run0) == seq![sb[i as int]] + x);
                    if i + 1 == n {
                        assert(sb.subrange(0, n) =~= sb);
                        assert(sb.subrange(n, n) =~= Seq::<u8>::empty());
                        assert(sb + Seq::<u8>::empty() =~= sb);
                    }
                }

//@ proof write_toml_value before 0 /let unescaped = &stream\[0\.\.unescaped_end\];/
            proof {
                is_char_boundary_start_end_of_seq(sb);
                if unescaped_end < n { lemma_ascii_boundary(sb, unescaped_end as int); }
            }

//@ proof write_toml_value before 0 /if escaped.is_none\(\) && !stream.is_empty\(\) \{/
            proof {
                lemma_str_bytes_valid(stream);
                let u = sb.subrange(0, unescaped_end as int);
                let e = escaped_str.spec_bytes();
                assert(unescaped.spec_bytes() == u);
                assert(e == opt_bytes(escaped));
                assert(writer.out@ == out_iter + u + e);
                if escaped is Some {
                    let rest = enc_b(sb.subrange(unescaped_end + 1, n), is_ml, 0);
                    assert(stream.spec_bytes() == sb.subrange(unescaped_end + 1, n));
                    lemma_join3(out_iter, u, e, rest);
                } else if unescaped_end == n {
                    assert(u =~= sb);
                    assert(stream.spec_bytes() =~= Seq::<u8>::empty());
                    assert(enc_b(stream.spec_bytes(), is_ml, 0) =~= Seq::<u8>::empty());
                    assert(out_iter + u + e + Seq::<u8>::empty() =~= out_iter + sb);
                } else {
                    assert(stream.spec_bytes() == sb.subrange(unescaped_end as int, n));
                }
            }

//@ proof write_toml_value before 0 /stream = &stream\[1\.\.\];/
                let ghost sb2 = stream.spec_bytes();
                proof {
                    assert(sb2[0] == sb[unescaped_end as int]);
                    lemma_ascii_boundary(sb2, 0);
                    is_char_boundary_start_end_of_seq(sb2);
                }

//@ proof write_toml_value after 0 /stream = &stream\[1\.\.\];/
                proof {
                    let u = sb.subrange(0, unescaped_end as int);
                    let e = seq![0x5cu8, 0x75u8];
                    let h = hex4(sb[unescaped_end as int] as u32);
                    let rest = enc_b(sb.subrange(unescaped_end + 1, n), is_ml, 0);
                    assert(stream.spec_bytes() =~= sb.subrange(unescaped_end + 1, n));
                    assert(escaped_str.spec_bytes() =~= Seq::<u8>::empty());
                    assert(writer.out@ =~= out_iter + u + e + h);
                    lemma_join4(out_iter, u, e, h, rest);
                }

//@ proof write_toml_value before 0 /Ok\(\(\)\)/
    proof {
        let out1 = writer.out@;
        let tok = out1.subrange(out0.len() as int, out1.len() as int);
        assert(delimiter.spec_bytes() == delim_of(encoding));
        assert(out1 == out0 + delim_of(encoding) + nl_of(encoding, newline) + body_of(encoding, ball) + delim_of(encoding)) by {
            if newline_prefix {} else { assert(out0 + delim_of(encoding) + Seq::<u8>::empty() =~= out0 + delim_of(encoding)); }
        }
        lemma_join4(out0, delim_of(encoding), nl_of(encoding, newline), body_of(encoding, ball), delim_of(encoding));
        let t = delim_of(encoding) + nl_of(encoding, newline) + body_of(encoding, ball) + delim_of(encoding);
        assert(tok =~= t);
        assert(out1.subrange(0, out0.len() as int) =~= out0);
        lemma_token(encoding, newline, ball);
    }

//@ contract TomlString::write_toml_value ret=res
    requires self.ok(),
    ensures
        res is Ok,
        old(writer).out@.len() <= final(writer).out@.len(),
        final(writer).out@.subrange(0, old(writer).out@.len() as int) == old(writer).out@,
        dec_style(Some(self.encoding), final(writer).out@.subrange(old(writer).out@.len() as int, final(writer).out@.len() as int))
            == Some(self.decoded.spec_bytes()),

//@ contract TomlKey::write_toml_key ret=res
    requires self.ok(),
    ensures
        res is Ok,
        old(writer).out@.len() <= final(writer).out@.len(),
        final(writer).out@.subrange(0, old(writer).out@.len() as int) == old(writer).out@,
        dec_style(self.encoding, final(writer).out@.subrange(old(writer).out@.len() as int, final(writer).out@.len() as int))
            == Some(self.decoded.spec_bytes()),

//@ postlude
impl ValueMetrics {
    // the metrics describe the byte string b (quote-run maxima saturate at 255)
    spec fn is_for(&self, b: Seq<u8>) -> bool {
        &&& self.max_seq_single_quotes as int == sat255(run_max(b, 0x27, b.len() as int))
        &&& self.max_seq_double_quotes as int == sat255(run_max(b, 0x22, b.len() as int))
        &&& self.escape_codes == has_ctrl(b, b.len() as int)
        &&& self.escape == has_byte(b, 0x5c, b.len() as int)
        &&& self.newline == has_byte(b, 0x0a, b.len() as int)
    }
}

impl KeyMetrics {
    spec fn is_for(&self, b: Seq<u8>) -> bool {
        &&& self.unquoted == (b.len() > 0 && all_unquoted(b, b.len() as int))
        &&& self.single_quotes == has_byte(b, 0x27, b.len() as int)
        &&& self.double_quotes == has_byte(b, 0x22, b.len() as int)
        &&& self.escape_codes == has_ctrl_or_nl(b, b.len() as int)
        &&& self.escape == has_byte(b, 0x5c, b.len() as int)
    }
}

impl<'s> TomlStringBuilder<'s> {
    spec fn wf(&self) -> bool { self.metrics.is_for(self.decoded.spec_bytes()) }

    // no control code, so every byte is a literal-char, an apostrophe or LF
    proof fn lemma_literal_ok(&self)
        requires self.wf(),
        ensures
            !self.metrics.escape_codes ==> all_mll(self.decoded.spec_bytes()),
            !self.metrics.escape_codes && self.metrics.max_seq_single_quotes == 0 && !self.metrics.newline ==> all_literal(self.decoded.spec_bytes()),
            (self.metrics.max_seq_single_quotes == 0) == !has_byte(self.decoded.spec_bytes(), 0x27, self.decoded.spec_bytes().len() as int),
            self.metrics.max_seq_single_quotes <= 2 ==> run_max(self.decoded.spec_bytes(), 0x27, self.decoded.spec_bytes().len() as int) <= 2,
            self.decoded.spec_bytes().len() > 0 && self.decoded.spec_bytes()[0] == 0x0a ==> self.metrics.newline,
    {
        let b = self.decoded.spec_bytes();
        let n = b.len() as int;
        lemma_run_max_zero(b, 0x27, n);
        lemma_run_bounds(b, 0x27, n);
        if !self.metrics.escape_codes {
            assert forall|i: int| 0 <= i < n implies (literal_char(#[trigger] b[i]) || b[i] == 0x27 || b[i] == 0x0a) by {
                if !(literal_char(b[i]) || b[i] == 0x27 || b[i] == 0x0a) {
                    assert(ctrl(b[i]));
                    assert(has_ctrl(b, n));
                }
            }
        }
        if n > 0 && b[0] == 0x0a {
            assert(has_byte(b, 0x0a, n));
        }
        if !self.metrics.escape_codes && self.metrics.max_seq_single_quotes == 0 && !self.metrics.newline {
            assert forall|i: int| 0 <= i < n implies literal_char(#[trigger] b[i]) by {
                if b[i] == 0x27 { assert(has_byte(b, 0x27, n)); }
                if b[i] == 0x0a { assert(has_byte(b, 0x0a, n)); }
            }
        }
    }
}

impl<'s> TomlString<'s> {
    spec fn ok(&self) -> bool {
        style_ok(Some(self.encoding), self.decoded.spec_bytes(), self.newline)
    }
}

impl<'s> TomlKeyBuilder<'s> {
    spec fn wf(&self) -> bool { self.metrics.is_for(self.decoded.spec_bytes()) }

    proof fn lemma_key_literal_ok(&self)
        requires self.wf(),
        ensures
            !self.metrics.escape_codes && !self.metrics.single_quotes ==>
                all_literal(self.decoded.spec_bytes()),
    {
        let b = self.decoded.spec_bytes();
        let n = b.len() as int;
        if !self.metrics.escape_codes && !self.metrics.single_quotes {
            assert forall|i: int| 0 <= i < n implies literal_char(#[trigger] b[i]) by {
                if b[i] == 0x27 { assert(has_byte(b, 0x27, n)); }
                if !literal_char(b[i]) && b[i] != 0x27 {
                    assert(ctrl(b[i]) || b[i] == 0x0a);
                    assert(has_ctrl_or_nl(b, n));
                }
            }
        }
    }
}

impl<'s> TomlKey<'s> {
    spec fn ok(&self) -> bool {
        style_ok(self.encoding, self.decoded.spec_bytes(), false)
    }
}

//@ main
// Fidelity battery: runs the EXTRACTED exec functions (compiled by `verus --compile`) on the
// same deterministic battery as `verif_replay fidelity-v1` runs the real crate on.
include!("@VERIF@/specs/shared/battery_v1.rs");

fn v_token(s: &str, k: usize) -> Option<Vec<u8>> {
    let b = TomlStringBuilder::new(s);
    let t = match k {
        0 => Some(b.as_default()),
        1 => b.as_literal(),
        2 => b.as_ml_literal(),
        3 => b.as_basic_pretty(),
        4 => b.as_ml_basic_pretty(),
        5 => Some(b.as_basic()),
        _ => Some(b.as_ml_basic()),
    };
    t.map(|t| {
        let mut w = VWriter { out: Vec::new() };
        write_toml_value(t.decoded, Some(t.encoding), t.newline, &mut w).unwrap();
        w.out
    })
}

fn k_token(s: &str, k: usize) -> Option<Vec<u8>> {
    let b = TomlKeyBuilder::new(s);
    let t = match k {
        0 => Some(b.as_default()),
        1 => b.as_unquoted(),
        2 => b.as_literal(),
        3 => b.as_basic_pretty(),
        _ => Some(b.as_basic()),
    };
    t.map(|t| {
        let mut w = VWriter { out: Vec::new() };
        write_toml_value(t.decoded, t.encoding, false, &mut w).unwrap();
        w.out
    })
}

fn main() {
    let max_len: usize = std::env::args().nth(1).and_then(|s| s.parse().ok()).unwrap_or(3);
    let value_styles = ["default", "literal", "ml_literal", "basic_pretty", "ml_basic_pretty", "basic", "ml_basic"];
    let key_styles = ["default", "unquoted", "literal", "basic_pretty", "basic"];
    let battery = v1_battery(max_len);
    let mut vh = [0xcbf29ce484222325u64; 7];
    let mut vn = [0usize; 7];
    let mut kh = [0xcbf29ce484222325u64; 5];
    let mut kn = [0usize; 5];
    for s in &battery {
        for k in 0..7 {
            match v_token(s, k) {
                Some(t) => { vn[k] += 1; fnv1a(&mut vh[k], &t); }
                None => fnv1a(&mut vh[k], b"<none>"),
            }
        }
        for k in 0..5 {
            match k_token(s, k) {
                Some(t) => { kn[k] += 1; fnv1a(&mut kh[k], &t); }
                None => fnv1a(&mut kh[k], b"<none>"),
            }
        }
    }
    println!("battery {}", battery.len());
    for k in 0..7 { println!("value {} offered {} digest {:016x}", value_styles[k], vn[k], vh[k]); }
    for k in 0..5 { println!("key {} offered {} digest {:016x}", key_styles[k], kn[k], kh[k]); }
}
