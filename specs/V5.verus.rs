// Contracts for unit V5: `impl FromStr for Datetime` in crates/toml_datetime/src/datetime.rs
// (C12, C04): the standalone date-time parser equals the date-time grammar on EVERY string.
//@ header
#![allow(unused_imports, dead_code, unused_variables, unused_mut, unused_assignments)]
use vstd::prelude::*;
use vstd::string::*;
use vstd::utf8::*;
use vstd::slice::*;
use core::str::{self, FromStr};
use vstd::std_specs::iter::*;

//@ prelude
// ======================================================================================
// Assumed contracts on core (vstd has none for these):

// the characters a `Chars` has not yet yielded (vstd's ghost view of the iterator)
#[verifier::prophetic]
pub open spec fn rem(c: &core::str::Chars<'_>) -> Seq<char> {
    IteratorSpec::remaining(c)
}

pub assume_specification<'a>[core::str::Chars::<'a>::as_str](c: &core::str::Chars<'a>) -> (r: &'a str)
    ensures r@ == rem(c);

// a `&str` never has more than usize::MAX bytes (Rust: at most isize::MAX); vstd states this for
// slices but not for str, so `str::len()` alone says nothing about the byte length
#[verifier::external_body]
proof fn axiom_str_len_fits(s: &str)
    ensures s.spec_bytes().len() <= usize::MAX,
{
}

// cloning a `Chars` yields an iterator over the same remaining characters
pub assume_specification<'a>[<core::str::Chars<'a> as Clone>::clone](c: &core::str::Chars<'a>) -> (r: core::str::Chars<'a>)
    ensures rem(&r) == rem(c);

// rule R7 wrapper: `Iterator::nth` is a provided trait method, to which Verus cannot attach an
// assume_specification; the wrapper's body is the call itself, its contract is assumed.
#[verifier::external_body]
fn chars_nth(c: core::str::Chars<'_>, n: usize) -> (r: Option<char>)
    ensures r == (if n < rem(&c).len() { Some(rem(&c)[n as int]) } else { None::<char> }),
{
    let mut c = c;
    c.nth(n)
}

// b^e as a mathematical integer
pub open spec fn ipow(b: int, e: nat) -> int
    decreases e
{
    if e == 0 { 1 } else { b * ipow(b, (e - 1) as nat) }
}

pub assume_specification[u32::pow](b: u32, e: u32) -> (r: u32)
    requires ipow(b as int, e as nat) <= u32::MAX,
    ensures r == ipow(b as int, e as nat);

pub assume_specification[char::is_ascii_digit](c: &char) -> (r: bool)
    ensures r == ('0' <= *c && *c <= '9');

// `&str[range]`: vstd checks the precondition and defines index_postcondition but does not
// attach it to `<str as Index<I>>::index` (same assumption as in unit V1)
pub assume_specification<I: core::slice::SliceIndex<str>>[<str as core::ops::Index<I>>::index](s: &str, i: I) -> (r: &I::Output)
    ensures i.index_postcondition(s, r);

// ======================================================================================
// at(r, s, p): "r is what is left of s from position p on".  Opaque, and the lemmas below are
// triggered on terms the parser itself creates (the remaining characters after an actual
// `next()`), so the solver walks the call sequence once instead of exploring every suffix
// (a first version with a `suffix(s, p)` trigger looped: 740 000 instantiations, 75 % of all).
#[verifier::opaque]
spec fn at(r: Seq<char>, s: Seq<char>, p: int) -> bool {
    0 <= p <= s.len() && r == s.subrange(p, s.len() as int)
}

proof fn lemma_at_intro(s: Seq<char>, p: int)
    requires 0 <= p <= s.len(),
    ensures at(s.subrange(p, s.len() as int), s, p), at(s, s, 0),
{
    reveal(at);
    assert(s.subrange(0, s.len() as int) =~= s);
}

proof fn lemma_at_def(r: Seq<char>, s: Seq<char>, p: int)
    requires at(r, s, p),
    ensures 0 <= p <= s.len(), r == s.subrange(p, s.len() as int),
{
    reveal(at);
}

broadcast proof fn lemma_at_len(r: Seq<char>, s: Seq<char>, p: int)
    requires #[trigger] at(r, s, p),
    ensures 0 <= p <= s.len(), r.len() == s.len() - p,
{
    reveal(at);
}

broadcast proof fn lemma_at_head(r: Seq<char>, s: Seq<char>, p: int)
    requires at(r, s, p), p < s.len(),
    ensures #![trigger at(r, s, p), r[0]] r[0] == s[p],
{
    reveal(at);
}

broadcast proof fn lemma_at_next(r: Seq<char>, s: Seq<char>, p: int)
    requires at(r, s, p), p < s.len(),
    ensures #![trigger at(r, s, p), r.drop_first()] at(r.drop_first(), s, p + 1),
{
    reveal(at);
    assert(s.subrange(p, s.len() as int).drop_first() =~= s.subrange(p + 1, s.len() as int));
}

spec fn view_date(d: Option<Date>) -> Option<(int, int, int)> {
    match d { Some(x) => Some((x.year as int, x.month as int, x.day as int)), None => None }
}
spec fn view_time(t: Option<Time>) -> Option<(int, int, int, int)> {
    match t { Some(x) => Some((x.hour as int, x.minute as int, x.second as int, x.nanosecond as int)), None => None }
}
spec fn view_offset(o: Option<Offset>) -> Option<Option<int>> {
    match o {
        Some(Offset::Z) => Some(None::<int>),
        Some(Offset::Custom { minutes }) => Some(Some(minutes as int)),
        None => None,
    }
}
spec fn dt_view(d: Datetime) -> DtView {
    DtView { date: view_date(d.date), time: view_time(d.time), offset: view_offset(d.offset) }
}

// ======================================================================================
// UTF-8 facts (vstd::utf8) linking the byte loop over the fraction to characters

// a string has at most as many characters as bytes
proof fn lemma_chars_le_bytes(c: Seq<char>)
    ensures c.len() <= encode_utf8(c).len(),
    decreases c.len()
{
    if c.len() > 0 {
        lemma_chars_le_bytes(c.drop_first());
        assert(encode_scalar(c[0] as u32).len() >= 1);
    }
}

// first byte of a non-empty string: the character itself if ASCII, otherwise >= 0xC0
proof fn lemma_first_byte(c: Seq<char>)
    requires c.len() > 0,
    ensures
        encode_utf8(c).len() > 0,
        (c[0] as u32) < 0x80 ==> encode_utf8(c)[0] as u32 == c[0] as u32
            && encode_utf8(c).subrange(1, encode_utf8(c).len() as int) == encode_utf8(c.drop_first()),
        (c[0] as u32) >= 0x80 ==> encode_utf8(c)[0] >= 0x80,
{
    let v = c[0] as u32;
    let e = encode_scalar(v);
    let rest = encode_utf8(c.drop_first());
    assert(encode_utf8(c) == e + rest);
    if v < 0x80 {
        assert((v & 0x7f) == v) by (bit_vector) requires v < 0x80;
        assert(e =~= seq![v as u8]);
        assert((e + rest).subrange(1, (e + rest).len() as int) =~= rest);
    } else if has_width_2_encoding(v) {
        let b = (v >> 6) & 0x1f;
        assert(((0xC0u8 | (b as u8)) >= 0x80u8)) by (bit_vector);
        assert(e[0] == leading_byte_width_2(v));
    } else if has_width_3_encoding(v) {
        let b = (v >> 12) & 0x0f;
        assert(((0xE0u8 | (b as u8)) >= 0x80u8)) by (bit_vector);
        assert(e[0] == leading_byte_width_3(v));
    } else {
        let b = (v >> 18) & 0x07;
        assert(((0xF0u8 | (b as u8)) >= 0x80u8)) by (bit_vector);
        assert(e[0] == leading_byte_width_4(v));
    }
}

// if the first k bytes of a string are ASCII, they are its first k characters and the rest
// of the bytes encode the rest of the characters
proof fn lemma_ascii_prefix(c: Seq<char>, k: int)
    requires
        0 <= k <= encode_utf8(c).len(),
        forall|i: int| 0 <= i < k ==> encode_utf8(c)[i] < 0x80,
    ensures
        k <= c.len(),
        forall|i: int| 0 <= i < k ==> (#[trigger] c[i]) as u32 == encode_utf8(c)[i] as u32,
        encode_utf8(c.subrange(k, c.len() as int)) == encode_utf8(c).subrange(k, encode_utf8(c).len() as int),
    decreases k
{
    let b = encode_utf8(c);
    if k == 0 {
        assert(c.subrange(0, c.len() as int) =~= c);
        assert(b.subrange(0, b.len() as int) =~= b);
    } else {
        assert(c.len() > 0) by { if c.len() == 0 { assert(b.len() == 0); } }
        lemma_first_byte(c);
        let c1 = c.drop_first();
        let b1 = encode_utf8(c1);
        assert(b1 == b.subrange(1, b.len() as int));
        assert forall|i: int| 0 <= i < k - 1 implies b1[i] < 0x80 by { assert(b1[i] == b[i + 1]); }
        lemma_ascii_prefix(c1, k - 1);
        assert forall|i: int| 0 <= i < k implies (#[trigger] c[i]) as u32 == b[i] as u32 by {
            if i > 0 { assert(c[i] == c1[i - 1]); assert(b[i] == b1[i - 1]); }
        }
        assert(c1.subrange(k - 1, c1.len() as int) =~= c.subrange(k, c.len() as int));
        assert(b1.subrange(k - 1, b1.len() as int) =~= b.subrange(k, b.len() as int));
    }
}

// two strings with the same bytes have the same characters
proof fn lemma_encode_injective(a: Seq<char>, b: Seq<char>)
    requires encode_utf8(a) == encode_utf8(b),
    ensures a == b,
{
    encode_utf8_decode_utf8(a);
    encode_utf8_decode_utf8(b);
}

proof fn lemma_str_bytes_valid(s: &str)
    ensures valid_utf8(s.spec_bytes())
{
    encode_utf8_valid_utf8(s@);
}

// an ASCII byte starts and ends a scalar value (same lemma as in unit V1)
proof fn lemma_ascii_boundary(b: Seq<u8>, i: int)
    requires valid_utf8(b), 0 <= i < b.len(), b[i] < 0x80,
    ensures is_char_boundary(b, i), is_char_boundary(b, i + 1),
{
    is_char_boundary_iff_not_is_continuation_byte(b, i);
    valid_utf8_split(b, i);
    let t = b.subrange(i, b.len() as int);
    assert(t[0] == b[i]);
    assert(valid_first_scalar(t));
    assert(length_of_first_scalar(t) == 1);
    let u = pop_first_scalar(t);
    assert(u =~= b.subrange(i + 1, b.len() as int));
    assert(valid_utf8(u));
    if i + 1 == b.len() {
        is_char_boundary_start_end_of_seq(b);
    } else {
        assert(valid_first_scalar(u));
        assert(u[0] == b[i + 1]);
        assert(!is_continuation_byte(b[i + 1]));
        is_char_boundary_iff_not_is_continuation_byte(b, i + 1);
    }
}

// the digit run: if s[p..q] are digits and q is the end or a non-digit, frac_end(s, p) == q
proof fn lemma_frac_end(s: Seq<char>, p: int, q: int)
    requires
        0 <= p <= q <= s.len(),
        forall|i: int| p <= i < q ==> is_dig(#[trigger] s[i]),
        q == s.len() || !is_dig(s[q]),
    ensures frac_end(s, p) == q,
    decreases q - p
{
    if p < q { lemma_frac_end(s, p + 1, q); }
}

// value of the first k (<= 9) fraction digits as accumulated by the loop, most significant first
spec fn frac_acc(s: Seq<char>, start: int, k: int) -> int
    decreases k
{
    if k <= 0 { 0 } else { frac_acc(s, start, k - 1) + dv(s[start + k - 1]) * ipow(10, (9 - k) as nat) }
}

proof fn lemma_pow10()
    ensures
        ipow(10, 0) == 1, ipow(10, 1) == 10, ipow(10, 2) == 100, ipow(10, 3) == 1000, ipow(10, 4) == 10000,
        ipow(10, 5) == 100000, ipow(10, 6) == 1000000, ipow(10, 7) == 10000000, ipow(10, 8) == 100000000,
{
    reveal_with_fuel(ipow, 10);
}

// the accumulated value stays below 10^9 - and leaves room for the next digit
proof fn lemma_frac_acc_bound(s: Seq<char>, start: int, k: int)
    requires 0 <= k <= 9, forall|i: int| start <= i < start + k ==> is_dig(#[trigger] s[i]),
    ensures 0 <= frac_acc(s, start, k) <= 1_000_000_000 - ipow(10, (9 - k) as nat),
    decreases k
{
    lemma_pow10();
    reveal_with_fuel(ipow, 11);
    if k > 0 {
        lemma_frac_acc_bound(s, start, k - 1);
        let d = dv(s[start + k - 1]);
        assert(is_dig(s[start + k - 1]));
        assert(0 <= d <= 9);
        let p = ipow(10, (9 - k) as nat);
        assert(ipow(10, (9 - (k - 1)) as nat) == 10 * p);
        assert(d * p <= 9 * p) by (nonlinear_arith) requires 0 <= d <= 9, p >= 0;
        assert(d * p >= 0) by (nonlinear_arith) requires 0 <= d, p >= 0;
    }
}

// front-to-back (frac_val) and back-to-front (frac_acc) sums agree
proof fn lemma_frac_val_acc(s: Seq<char>, start: int, end: int, k: int, n: int)
    requires 0 <= k <= n <= 9, n == (if end - start < 9 { end - start } else { 9int }), start <= end,
    ensures frac_acc(s, start, n) == frac_acc(s, start, k) + frac_val(s, start, end, k),
    decreases n - k
{
    if k < n {
        lemma_frac_val_acc(s, start, end, k + 1, n);
    } else {
        // k == n: frac_val is 0 here (k >= 9 or start + k >= end)
    }
}

// the loop's accumulator over the bytes of the fraction: first k (<= 9) digits, most significant first
spec fn bacc(b: Seq<u8>, k: int) -> int
    decreases k
{
    if k <= 0 { 0 } else { bacc(b, k - 1) + (b[k - 1] as int - 0x30) * ipow(10, (9 - k) as nat) }
}

spec fn is_dig_byte(x: u8) -> bool { 0x30 <= x && x <= 0x39 }

proof fn lemma_bacc_bound(b: Seq<u8>, k: int)
    requires 0 <= k <= 9, k <= b.len(), forall|i: int| 0 <= i < k ==> is_dig_byte(#[trigger] b[i]),
    ensures 0 <= bacc(b, k) <= 1_000_000_000 - ipow(10, (9 - k) as nat),
    decreases k
{
    lemma_pow10();
    reveal_with_fuel(ipow, 11);
    if k > 0 {
        lemma_bacc_bound(b, k - 1);
        assert(is_dig_byte(b[k - 1]));
        let d = b[k - 1] as int - 0x30;
        let p = ipow(10, (9 - k) as nat);
        assert(ipow(10, (9 - (k - 1)) as nat) == 10 * p);
        assert(d * p <= 9 * p) by (nonlinear_arith) requires 0 <= d <= 9, p >= 0;
        assert(d * p >= 0) by (nonlinear_arith) requires 0 <= d, p >= 0;
    }
}

// bytes equal characters on the digit prefix  ==>  the two accumulators agree
proof fn lemma_bacc_frac_acc(b: Seq<u8>, s: Seq<char>, start: int, k: int)
    requires 0 <= k, 0 <= start, start + k <= s.len(), k <= b.len(),
        forall|i: int| 0 <= i < k ==> (#[trigger] s[start + i]) as u32 == b[i] as u32,
    ensures bacc(b, k) == frac_acc(s, start, k),
    decreases k
{
    if k > 0 {
        lemma_bacc_frac_acc(b, s, start, k - 1);
        assert(s[start + (k - 1)] as u32 == b[k - 1] as u32);
    }
}

// everything the parser needs to know about the fraction after its byte loop, in one step
proof fn lemma_fraction(s: Seq<char>, p: int, w: Seq<char>, wb: Seq<u8>, end: int, nanos: int)
    requires
        0 <= p <= s.len(),
        w == s.subrange(p, s.len() as int),
        wb == encode_utf8(w),
        0 <= end <= wb.len(),
        forall|k: int| 0 <= k < end ==> is_dig_byte(#[trigger] wb[k]),
        end < wb.len() ==> !is_dig_byte(wb[end]),
        nanos == bacc(wb, if end < 9 { end } else { 9 }),
    ensures
        is_char_boundary(wb, end),
        is_char_boundary(wb, wb.len() as int),
        end <= w.len(),
        p + end <= s.len(),
        encode_utf8(s.subrange(p + end, s.len() as int)) == wb.subrange(end, wb.len() as int),
        frac_end(s, p) == p + end,
        nanos == frac_val(s, p, p + end, 0),
        0 <= nanos <= 999_999_999,
{
    encode_utf8_valid_utf8(w);
    assert forall|k: int| 0 <= k < end implies wb[k] < 0x80 by { assert(is_dig_byte(wb[k])); }
    lemma_ascii_prefix(w, end);
    is_char_boundary_start_end_of_seq(wb);
    if 0 < end { lemma_ascii_boundary(wb, end - 1); }
    let wr = w.subrange(end, w.len() as int);
    assert(wr =~= s.subrange(p + end, s.len() as int));
    if end < wb.len() {
        assert(encode_utf8(wr).len() > 0);
        assert(wr.len() > 0) by { if wr.len() == 0 { assert(encode_utf8(wr).len() == 0); } }
        lemma_first_byte(wr);
        assert(encode_utf8(wr)[0] == wb[end]);
        assert(wr[0] == w[end]);
        assert(!is_dig(w[end]));
        assert(w[end] == s[p + end]);
    } else {
        lemma_chars_le_bytes(wr);
        assert(wr.len() == 0);
        assert(p + end == s.len());
    }
    assert forall|i: int| p <= i < p + end implies is_dig(#[trigger] s[i]) by {
        let k = i - p;
        assert(w[k] == s[i]);
        assert(w[k] as u32 == wb[k] as u32);
        assert(is_dig_byte(wb[k]));
    }
    lemma_frac_end(s, p, p + end);
    let n = if end < 9 { end } else { 9 };
    assert forall|i: int| 0 <= i < n implies (#[trigger] s[p + i]) as u32 == wb[i] as u32 by {
        assert(w[i] == s[p + i]);
    }
    lemma_bacc_frac_acc(wb, s, p, n);
    lemma_frac_val_acc(s, p, p + end, 0, n);
    lemma_bacc_bound(wb, n);
    lemma_pow10();
}

//@ contract digit ret=r
    ensures
        forall|s: Seq<char>, p: int| #[trigger] at(rem(old(chars)), s, p) ==>
            match r {
                Ok(v) => p < s.len() && is_dig(s[p]) && v as int == dv(s[p]) && v <= 9 && at(rem(final(chars)), s, p + 1),
                Err(_) => p == s.len() || !is_dig(s[p]),
            },

//@ proof digit before 0 /match chars\.next\(\) \{/
    proof { broadcast use lemma_at_len, lemma_at_head, lemma_at_next; }

//@ contract Datetime::from_str ret=r
    ensures
        match r {
            Ok(d) => sp_datetime(date@) == Some(dt_view(d)),
            Err(_) => sp_datetime(date@) is None,
        },

//@ proof Datetime::from_str before 0 /if date\.len\(\) < 3 \{/
        let ghost s = date@;
        proof {
            broadcast use lemma_at_len, lemma_at_head, lemma_at_next;
            lemma_at_intro(s, 0);
            lemma_chars_le_bytes(s);
            lemma_dt_cases(s);
            assert(date.spec_bytes() == encode_utf8(s));
            axiom_str_len_fits(date);
        }

//@ proof Datetime::from_str after 0 /let mut chars = date\.chars\(\);/
        proof { assert(at(rem(&chars), s, 0)); }

//@ proof Datetime::from_str before 0 /let y1 = u16::from/
            proof { assert(sp_time(s, 0) is None); }

//@ proof Datetime::from_str before 0 /let m1 = digit\(&mut chars\)\?;/
            proof { assert(at(rem(&chars), s, 5)); }

//@ proof Datetime::from_str before 0 /let d1 = digit\(&mut chars\)\?;/
            proof { assert(at(rem(&chars), s, 8)); }

//@ proof Datetime::from_str before 1 /let m1 = digit\(&mut chars\)\?;/
            proof { assert(at(rem(&chars), s, p1 + 3)); }

//@ proof Datetime::from_str before 0 /let s1 = digit\(&mut chars\)\?;/
            proof { assert(at(rem(&chars), s, p1 + 6)); }

//@ proof Datetime::from_str before 0 /let whole = chars\.as_str\(\);/
                proof { assert(at(rem(&chars), s, p1 + 9)); }

//@ proof Datetime::from_str before 0 /let h1 = digit\(&mut chars\)\? as i16;/
                proof { assert(at(rem(&chars), s, pt + 1)); }

//@ proof Datetime::from_str before 0 /let m1 = digit\(&mut chars\)\? as i16;/
                proof { assert(at(rem(&chars), s, pt + 4)); }

//@ proof Datetime::from_str before 0 /let date = Date \{/
            proof {
                assert(s.len() >= 10);
                assert(at(rem(&chars), s, 10));
                assert(two_ok(s, 0) && two_ok(s, 2) && s[4] == '-' && two_ok(s, 5) && s[7] == '-' && two_ok(s, 8));
                assert(y1 == dv(s[0]) && y2 == dv(s[1]) && y3 == dv(s[2]) && y4 == dv(s[3]));
                assert(m1 == dv(s[5]) && m2 == dv(s[6]) && d1 == dv(s[8]) && d2 == dv(s[9]));
            }

//@ proof Datetime::from_str before 0 /Some\(date\)/
            proof {
                assert(sp_date(s, 0) == Some((date.year as int, date.month as int, date.day as int)));
            }

//@ proof Datetime::from_str before 0 /let next = chars\.clone\(\)\.next\(\);/
        let ghost p0: int = if full_date.is_some() { 10 } else { 0 };
        proof {
            assert(at(rem(&chars), s, p0));
            if full_date is None {
                assert(s.len() > 2 && s[2] == ':');
                assert(sp_date(s, 0) is None);
            }
            assert(sp_date(s, 0) == view_date(full_date));
        }

//@ proof Datetime::from_str before 0 /let time = if partial_time \{/
        let ghost p1: int = if full_date.is_some() { 11 } else { 0 };
        proof {
            if partial_time {
                assert(at(rem(&chars), s, p1));
                assert(full_date is Some ==> s.len() > 10 && time_delim(s[10]));
            } else {
                assert(full_date is Some);
                assert(at(rem(&chars), s, 10));
                assert(s.len() == 10 || !time_delim(s[10]));
            }
        }

//@ proof Datetime::from_str before 0 /let mut nanosecond = 0;/
            proof {
                assert(s.len() >= p1 + 8);
                assert(at(rem(&chars), s, p1 + 8));
                assert(two_ok(s, p1) && s[p1 + 2] == ':' && two_ok(s, p1 + 3) && s[p1 + 5] == ':' && two_ok(s, p1 + 6));
                assert(h1 == dv(s[p1]) && h2 == dv(s[p1 + 1]) && m1 == dv(s[p1 + 3]) && m2 == dv(s[p1 + 4]));
                assert(s1 == dv(s[p1 + 6]) && s2 == dv(s[p1 + 7]));
            }

//@ proof Datetime::from_str after 0 /let whole = chars\.as_str\(\);/
                let ghost w = whole@;
                let ghost wb = whole.spec_bytes();
                proof {
                    assert(s.len() > p1 + 8 && s[p1 + 8] == '.');
                    lemma_at_def(w, s, p1 + 9);
                    assert(w == s.subrange(p1 + 9, s.len() as int));
                    assert(wb == encode_utf8(w));
                    lemma_str_bytes_valid(whole);
                    axiom_str_len_fits(whole);
                    lemma_pow10();
                }

//@ loop Datetime::from_str 0 iter=it
                    invariant_except_break
                        end == wb.len(),
                        forall|k: int| 0 <= k < i ==> is_dig_byte(#[trigger] wb[k]),
                        nanosecond as int == bacc(wb, if i < 9 { i as int } else { 9 }),
                    invariant
                        wb == whole.spec_bytes(),
                        wb.len() <= usize::MAX,
                    ensures
                        end <= wb.len(),
                        forall|k: int| 0 <= k < end ==> is_dig_byte(#[trigger] wb[k]),
                        end < wb.len() ==> !is_dig_byte(wb[end as int]),
                        nanosecond as int == bacc(wb, if end < 9 { end as int } else { 9 }),

//@ proof Datetime::from_str before 0 /match byte \{/
                    proof {
                        lemma_pow10();
                        if i < 9 {
                            lemma_bacc_bound(wb, i as int);
                        }
                    }

//@ proof Datetime::from_str before 0 /nanosecond \+= p \* u32::from/
                                proof {
                                    let d = byte as int - 0x30;
                                    let pp = ipow(10, (8 - i) as nat);
                                    assert(p == pp);
                                    assert(0 <= pp <= 100_000_000);
                                    assert(pp * d <= pp * 9) by (nonlinear_arith) requires 0 <= d <= 9, pp >= 0;
                                    assert(pp * d >= 0) by (nonlinear_arith) requires 0 <= d, pp >= 0;
                                    assert(ipow(10, (9 - i) as nat) == 10 * pp) by { reveal_with_fuel(ipow, 2); }
                                    assert(byte == wb[i as int]);
                                    assert(bacc(wb, i + 1) == bacc(wb, i as int) + d * ipow(10, (9 - (i + 1)) as nat));
                                    assert(d * pp == pp * d) by (nonlinear_arith);
                                }

//@ proof Datetime::from_str before 0 /if end == 0 \{/
                proof {
                    lemma_fraction(s, p1 + 9, w, wb, end as int, nanosecond as int);
                }

//@ proof Datetime::from_str after 0 /chars = whole\[end\.\.\]\.chars\(\);/
                proof {
                    lemma_encode_injective(rem(&chars), s.subrange(p1 + 9 + end, s.len() as int));
                    lemma_at_intro(s, p1 + 9 + end);
                    assert(at(rem(&chars), s, p1 + 9 + end));
                }

//@ proof Datetime::from_str before 0 /let time = Time \{/
            let ghost pe: int = s.len() - rem(&chars).len();
            proof {
                assert(at(rem(&chars), s, pe));
            }

//@ proof Datetime::from_str before 0 /Some\(time\)/
            proof {
                assert(sp_time(s, p1) == Some(((time.hour as int, time.minute as int, time.second as int, time.nanosecond as int), pe)));
            }

//@ proof Datetime::from_str before 0 /let offset = if /
        let ghost pt: int = s.len() - rem(&chars).len();
        proof {
            assert(at(rem(&chars), s, pt));
            assert(time is Some ==> sp_time(s, p1) == Some((view_time(time)->0, pt)));
            assert(time is None ==> full_date is Some && pt == 10 && (s.len() == 10 || !time_delim(s[10])));
            if full_date is Some && time is Some {
                assert(p1 == 11);
                assert(s.len() > 10 && time_delim(s[10]));
                assert(sp_time(s, 11) is Some && (sp_time(s, 11)->0).1 == pt);
                assert(pt != s.len() && sp_offset(s, pt) is None ==> sp_datetime(s) is None);
            }
        }

//@ proof Datetime::from_str before 0 /let hours = h1 \* 10 \+ h2;/
                proof {
                    assert(s.len() >= pt + 6);
                    assert(at(rem(&chars), s, pt + 6));
                    assert(two_ok(s, pt + 1) && s[pt + 3] == ':' && two_ok(s, pt + 4));
                    assert(h1 == dv(s[pt + 1]) && h2 == dv(s[pt + 2]) && m1 == dv(s[pt + 4]) && m2 == dv(s[pt + 5]));
                    assert(sign == 1 || sign == -1);
                    assert((sign == 1) == (s[pt] == '+'));
                }

//@ proof Datetime::from_str before 0 /let total_minutes = sign/
                let ghost mag: int = (hours * 60 + minutes) as int;
                proof {
                    assert(0 <= mag <= 23 * 60 + 59);
                    if sign == 1 {
                        assert(sign as int * mag == mag) by (nonlinear_arith) requires sign == 1;
                    } else {
                        assert(sign as int * mag == -mag) by (nonlinear_arith) requires sign == -1;
                    }
                }

//@ proof Datetime::from_str before 0 /Some\(Offset::Custom \{/
                proof {
                    assert(sp_offset(s, pt) == Some((Some(total_minutes as int), pt + 6)));
                }

//@ proof Datetime::from_str before 0 /if chars\.next\(\)\.is_some\(\) \{/
        let ghost pf: int = s.len() - rem(&chars).len();
        proof {
            assert(at(rem(&chars), s, pf));
            assert(offset is Some ==> sp_offset(s, pt) == Some((view_offset(offset)->0, pf)));
            assert(offset is None ==> pf == pt);
            // the verdict of the grammar, case by case, before the end-of-input test
            if full_date is None {
                assert(p1 == 0 && time is Some && offset is None);
                assert(sp_date(s, 0) is None);
                assert(pf == s.len() ==> sp_datetime(s) == Some(DtView { date: None, time: view_time(time), offset: None }));
                assert(pf != s.len() ==> sp_datetime(s) is None);
            } else if time is None {
                assert(offset is None && pf == 10);
                assert(pf == s.len() ==> sp_datetime(s) == Some(DtView { date: view_date(full_date), time: None, offset: None }));
                assert(pf != s.len() ==> sp_datetime(s) is None);
            } else if offset is None {
                assert(pf == s.len());
                assert(sp_datetime(s) == Some(DtView { date: view_date(full_date), time: view_time(time), offset: None }));
            } else {
                assert(pt != s.len());
                assert(pf == s.len() ==> sp_datetime(s) == Some(DtView { date: view_date(full_date), time: view_time(time), offset: view_offset(offset) }));
                assert(pf != s.len() ==> sp_datetime(s) is None);
            }
        }

//@ attr Datetime::from_str
#[verifier::spinoff_prover]
#[verifier::rlimit(300)]

//@ main
// Fidelity battery: runs the EXTRACTED `from_str` (compiled by `verus --compile`) on the same
// battery as `verif_replay fidelity-v5` runs the real crate on, and prints the same digest.
include!("@VERIF@/specs/shared/battery_dt.rs");

fn main() {
    let b = dt_battery();
    let mut h = 0xcbf29ce484222325u64;
    let mut ok = 0usize;
    for s in &b {
        match Datetime::from_str(s) {
            Ok(d) => {
                ok += 1;
                let date = d.date.map(|x| (x.year, x.month, x.day));
                let time = d.time.map(|t| (t.hour, t.minute, t.second, t.nanosecond));
                let offset = d.offset.map(|o| match o { Offset::Z => None, Offset::Custom { minutes } => Some(minutes) });
                dt_fnv1a(&mut h, format!("{:?}|{:?}|{:?}", date, time, offset).as_bytes());
            }
            Err(_) => dt_fnv1a(&mut h, b"<err>"),
        }
    }
    println!("battery {} accepted {} digest {:016x}", b.len(), ok, h);
}
