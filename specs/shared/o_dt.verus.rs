// O-dt over characters (shared by units V5 and V6): spliced in front of the unit's prelude.
// ======================================================================================
// O-dt over characters: the four date-time shapes of the TOML 1.0.0 ABNF / RFC 3339
spec fn is_dig(c: char) -> bool { '0' <= c && c <= '9' }
spec fn dv(c: char) -> int { c as u32 as int - 0x30 }
spec fn two_ok(s: Seq<char>, i: int) -> bool { 0 <= i && i + 2 <= s.len() && is_dig(s[i]) && is_dig(s[i + 1]) }
spec fn two_v(s: Seq<char>, i: int) -> int { dv(s[i]) * 10 + dv(s[i + 1]) }

spec fn is_leap(y: int) -> bool { y % 4 == 0 && (y % 100 != 0 || y % 400 == 0) }
spec fn days_in_month(y: int, m: int) -> int {
    if m == 1 || m == 3 || m == 5 || m == 7 || m == 8 || m == 10 || m == 12 { 31 }
    else if m == 4 || m == 6 || m == 9 || m == 11 { 30 }
    else if m == 2 { if is_leap(y) { 29 } else { 28 } }
    else { 0 }
}
spec fn valid_date(y: int, m: int, d: int) -> bool { 1 <= m <= 12 && 1 <= d <= days_in_month(y, m) }
spec fn valid_time(h: int, mi: int, s: int) -> bool { h <= 23 && mi <= 59 && s <= 60 }
spec fn valid_offset(h: int, mi: int) -> bool { h <= 23 && mi <= 59 }
spec fn time_delim(c: char) -> bool { c == 'T' || c == 't' || c == ' ' }

// full-date = date-fullyear "-" date-month "-" date-mday, at position i (10 characters)
spec fn sp_date(s: Seq<char>, i: int) -> Option<(int, int, int)> {
    if 0 <= i && s.len() >= i + 10 && two_ok(s, i) && two_ok(s, i + 2) && s[i + 4] == '-' && two_ok(s, i + 5)
        && s[i + 7] == '-' && two_ok(s, i + 8) {
        let y = two_v(s, i) * 100 + two_v(s, i + 2);
        let m = two_v(s, i + 5);
        let d = two_v(s, i + 8);
        if valid_date(y, m, d) { Some((y, m, d)) } else { None }
    } else { None }
}

// end of the maximal digit run starting at j
spec fn frac_end(s: Seq<char>, j: int) -> int
    decreases s.len() - j
{
    if 0 <= j && j < s.len() && is_dig(s[j]) { frac_end(s, j + 1) } else { j }
}

// secfrac: the first nine digits of s[start..end], right-padded with zeros (truncation)
spec fn frac_val(s: Seq<char>, start: int, end: int, k: int) -> int
    decreases 9 - k
{
    if k >= 9 || start + k >= end { 0 } else { dv(s[start + k]) * ipow(10, (8 - k) as nat) + frac_val(s, start, end, k + 1) }
}

// partial-time = time-hour ":" time-minute ":" time-second [ "." 1*DIGIT ]; returns fields and end
spec fn sp_time(s: Seq<char>, i: int) -> Option<((int, int, int, int), int)> {
    if 0 <= i && s.len() >= i + 8 && two_ok(s, i) && s[i + 2] == ':' && two_ok(s, i + 3) && s[i + 5] == ':' && two_ok(s, i + 6)
        && valid_time(two_v(s, i), two_v(s, i + 3), two_v(s, i + 6)) {
        if s.len() > i + 8 && s[i + 8] == '.' {
            let e = frac_end(s, i + 9);
            if e == i + 9 { None } else { Some(((two_v(s, i), two_v(s, i + 3), two_v(s, i + 6), frac_val(s, i + 9, e, 0)), e)) }
        } else {
            Some(((two_v(s, i), two_v(s, i + 3), two_v(s, i + 6), 0int), i + 8))
        }
    } else { None }
}

// time-offset = "Z" / ( "+" / "-" ) time-hour ":" time-minute; None inside: Z
spec fn sp_offset(s: Seq<char>, i: int) -> Option<(Option<int>, int)> {
    if 0 <= i && i < s.len() && (s[i] == 'Z' || s[i] == 'z') { Some((None::<int>, i + 1)) }
    else if 0 <= i && s.len() >= i + 6 && (s[i] == '+' || s[i] == '-') && two_ok(s, i + 1) && s[i + 3] == ':' && two_ok(s, i + 4)
        && valid_offset(two_v(s, i + 1), two_v(s, i + 4)) {
        let mag = two_v(s, i + 1) * 60 + two_v(s, i + 4);
        Some((Some(if s[i] == '+' { mag } else { -mag }), i + 6))
    } else { None }
}

struct DtView {
    date: Option<(int, int, int)>,
    time: Option<(int, int, int, int)>,
    offset: Option<Option<int>>,
}

#[verifier::opaque]
spec fn sp_datetime(s: Seq<char>) -> Option<DtView> {
    match sp_date(s, 0) {
        Some(d) => {
            if s.len() == 10 { Some(DtView { date: Some(d), time: None, offset: None }) }
            else if !time_delim(s[10]) { None }
            else {
                match sp_time(s, 11) {
                    None => None,
                    Some((t, j)) => {
                        if j == s.len() { Some(DtView { date: Some(d), time: Some(t), offset: None }) }
                        else {
                            match sp_offset(s, j) {
                                None => None,
                                Some((o, k)) => if k == s.len() { Some(DtView { date: Some(d), time: Some(t), offset: Some(o) }) } else { None },
                            }
                        }
                    }
                }
            }
        }
        None => {
            match sp_time(s, 0) {
                Some((t, j)) => if j == s.len() { Some(DtView { date: None, time: Some(t), offset: None }) } else { None },
                None => None,
            }
        }
    }
}

// the definition of sp_datetime, case by case, over the terms the parser computes
proof fn lemma_dt_cases(s: Seq<char>)
    ensures
        s.len() < 8 ==> sp_datetime(s) is None,
        sp_date(s, 0) is None && sp_time(s, 0) is None ==> sp_datetime(s) is None,
        // time only
        sp_date(s, 0) is None && sp_time(s, 0) is Some ==> (
            sp_datetime(s) == (if (sp_time(s, 0)->0).1 == s.len() {
                Some(DtView { date: None, time: Some((sp_time(s, 0)->0).0), offset: None })
            } else { None::<DtView> })),
        // date first
        sp_date(s, 0) is Some ==> s.len() >= 10,
        sp_date(s, 0) is Some && s.len() == 10 ==>
            sp_datetime(s) == Some(DtView { date: sp_date(s, 0), time: None, offset: None }),
        sp_date(s, 0) is Some && s.len() > 10 && !time_delim(s[10]) ==> sp_datetime(s) is None,
        sp_date(s, 0) is Some && s.len() > 10 && time_delim(s[10]) && sp_time(s, 11) is None ==> sp_datetime(s) is None,
        sp_date(s, 0) is Some && s.len() > 10 && time_delim(s[10]) && sp_time(s, 11) is Some ==> ({
            let t = (sp_time(s, 11)->0).0;
            let j = (sp_time(s, 11)->0).1;
            &&& (j == s.len() ==> sp_datetime(s) == Some(DtView { date: sp_date(s, 0), time: Some(t), offset: None }))
            &&& (j != s.len() && sp_offset(s, j) is None ==> sp_datetime(s) is None)
            &&& (j != s.len() && sp_offset(s, j) is Some ==> sp_datetime(s) == (if (sp_offset(s, j)->0).1 == s.len() {
                    Some(DtView { date: sp_date(s, 0), time: Some(t), offset: Some((sp_offset(s, j)->0).0) })
                } else { None::<DtView> }))
        }),
{
    reveal(sp_datetime);
}

