// Deterministic date-time string battery (K3/V5 witness search and the V5 fidelity check).
// Plain Rust, included verbatim by /verif/replay and by the Verus-compiled extraction of V5.

pub fn dt_battery() -> Vec<String> {
    let mut v: Vec<String> = Vec::new();
    let hours = ["00", "09", "12", "23", "24", "25", "29", "30", "99"];
    let mins = ["00", "30", "59", "60", "61", "99"];
    let secs = ["00", "59", "60", "61", "99"];
    for h in hours {
        for m in mins {
            for s in secs {
                v.push(format!("{h}:{m}:{s}"));
            }
        }
    }
    let years = ["0000", "0001", "1900", "1999", "2000", "2023", "2024", "2100", "2400", "9999"];
    let months = ["00", "01", "02", "03", "04", "06", "09", "11", "12", "13", "19", "99"];
    let days = ["00", "01", "28", "29", "30", "31", "32", "39", "99"];
    for y in years {
        for mo in months {
            for d in days {
                v.push(format!("{y}-{mo}-{d}"));
            }
        }
    }
    let offsets = ["", "Z", "z", "+00:00", "-00:00", "+23:59", "-23:59", "+24:00", "-24:00", "+23:60", "+00:60",
                   "+00:99", "+99:00", "+1:00", "+01:0", "+0100", "+01:00Z", "ZZ", " Z", "+", "-", "+01", "+01:", "x"];
    let fracs = ["", ".", ".0", ".1", ".5", ".999", ".123456789", ".1234567891", ".1234567899", ".9999999999",
                 ".000000001", ".0000000001", ".1a", ".12345678901234567890", ".-1"];
    for delim in ["T", "t", " ", "_", "", "TT"] {
        for date in ["1979-05-27", "2000-02-29", "1900-02-29", "2023-02-29"] {
            for time in ["07:32:00", "23:59:60", "24:00:00", "00:60:00", "7:32:00"] {
                for f in fracs {
                    for o in offsets {
                        v.push(format!("{date}{delim}{time}{f}{o}"));
                    }
                }
            }
        }
    }
    for f in fracs {
        v.push(format!("12:34:56{f}"));
        v.push(format!("12:34:56{f}Z"));
    }
    for s in ["", "1", "12", "12:", "12:3", "1979", "1979-", "1979-05", "1979-05-2", "1979-05-27T", "1979-05-27 ",
              "\u{e9}\u{e9}:00:00", "1979-05-27T07:32:00\u{e9}", "19790527", "1979/05/27", " 1979-05-27", "1979-05-27\n"] {
        v.push(s.to_owned());
    }
    v
}


pub fn dt_fnv1a(h: &mut u64, bytes: &[u8]) {
    for b in bytes {
        *h ^= *b as u64;
        *h = h.wrapping_mul(0x100000001b3);
    }
    *h ^= 0xff;
    *h = h.wrapping_mul(0x100000001b3);
}

/// grid of well-formed date-time values: (date, time, offset) with offset None / Z / minutes
#[allow(clippy::type_complexity)]
pub fn dt_values() -> Vec<(Option<(u16, u8, u8)>, Option<(u8, u8, u8, u32)>, Option<Option<i16>>)> {
    let dates = [(0u16, 1u8, 1u8), (1979, 5, 27), (2000, 2, 29), (1900, 2, 28), (9999, 12, 31), (2024, 11, 30), (7, 10, 9)];
    let times = [(0u8, 0u8, 0u8, 0u32), (23, 59, 60, 999_999_999), (7, 32, 0, 500_000_000), (12, 34, 56, 1), (1, 2, 3, 120_000),
                 (9, 9, 9, 100_000_000), (10, 20, 30, 123_456_789), (0, 0, 0, 10), (5, 6, 7, 999_000_000)];
    let offsets = [None, Some(0i16), Some(1), Some(-1), Some(59), Some(60), Some(-60), Some(1439), Some(-1439), Some(330), Some(-36)];
    let mut v = Vec::new();
    for d in dates {
        v.push((Some(d), None, None));
        for t in times {
            v.push((Some(d), Some(t), None));
            for o in offsets {
                v.push((Some(d), Some(t), Some(o)));
            }
        }
    }
    for t in times {
        v.push((None, Some(t), None));
    }
    v
}
