// Deterministic string battery for unit V1 (fidelity check and witness search).
// Plain Rust, included verbatim both by the Verus-compiled extraction (`verus --compile`)
// and by /verif/replay (which links the real crates).

pub fn v1_alphabet() -> Vec<&'static str> {
    vec!["\"", "'", "\\", "\n", "\r", "\t", " ", "\0", "\u{1f}", "\u{7f}", "#", "a", "\u{e9}", "\u{1F600}"]
}

pub fn v1_battery(max_len: usize) -> Vec<String> {
    let alpha = v1_alphabet();
    let mut out: Vec<String> = vec![String::new()];
    let mut layer: Vec<String> = vec![String::new()];
    for _ in 0..max_len {
        let mut next = Vec::with_capacity(layer.len() * alpha.len());
        for s in &layer {
            for a in &alpha {
                let mut t = s.clone();
                t.push_str(a);
                next.push(t);
            }
        }
        out.extend(next.iter().cloned());
        layer = next;
    }
    // long quote runs around the u8 boundary, alone and embedded
    for q in ["'", "\""] {
        for n in [3usize, 4, 5, 6, 254, 255, 256, 257, 258, 300, 511, 512, 513] {
            let run = q.repeat(n);
            out.push(run.clone());
            out.push(format!("a{run}"));
            out.push(format!("{run}a"));
            out.push(format!("a{run}b{}", q.repeat(2)));
            out.push(format!("\n{run}"));
        }
    }
    // every single byte 0..=0x7f alone and between letters
    for c in 0u8..=0x7f {
        let ch = c as char;
        out.push(ch.to_string());
        out.push(format!("x{ch}y"));
        out.push(format!("\"\"{ch}\"\"\""));
    }
    out
}

pub fn fnv1a(h: &mut u64, bytes: &[u8]) {
    for b in bytes {
        *h ^= *b as u64;
        *h = h.wrapping_mul(0x100000001b3);
    }
    *h ^= 0xff;
    *h = h.wrapping_mul(0x100000001b3);
}
