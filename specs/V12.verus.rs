// Contracts for unit V12: the conversion closure of `float` in
// crates/toml_edit/src/parser/numbers.rs -> C02 (float value = str::parse::<f64> of the matched
// text with every '_' removed), C11 (the guard rejects exactly the infinities)
//@ header
#![allow(unused_imports, dead_code, unused_variables, unused_mut, unused_assignments)]
use vstd::prelude::*;
use vstd::string::*;

//@ prelude
#[verifier::external_type_specification]
#[verifier::external_body]
pub struct ExParseFloatError(core::num::ParseFloatError);

spec fn remove_char(t: Seq<char>, c: char) -> Seq<char>
    decreases t.len()
{
    if t.len() == 0 { t } else if t[t.len() - 1] == c { remove_char(t.drop_last(), c) } else { remove_char(t.drop_last(), c).push(t[t.len() - 1]) }
}

// what `str::parse::<f64>` returns for a text (correctly rounded decimal -> binary64 conversion of
// core::num::dec2flt: trusted, only named here)
pub uninterp spec fn std_parse_f64(t: Seq<char>) -> Result<f64, core::num::ParseFloatError>;

// rule R12 wrapper: `X.replace(c, "")` removes every occurrence of the character
#[verifier::external_body]
fn str_remove_char(s: &str, c: char) -> (r: String)
    ensures r@ == remove_char(s@, c),
{ s.replace(c, "") }

// rule R11c wrapper: `X.parse()` at type f64
#[verifier::external_body]
fn parse_f64(s: &String) -> (r: Result<f64, core::num::ParseFloatError>)
    ensures r == std_parse_f64(s@),
{ s.parse() }

// f64::is_infinite in terms of the bit pattern (IEEE 754 binary64: exponent all ones, fraction 0)
pub assume_specification [f64::is_infinite] (f: f64) -> (r: bool)
    ensures r == (f64_to_bits_spec(f) & 0x7fff_ffff_ffff_ffffu64 == 0x7ff0_0000_0000_0000u64);

pub uninterp spec fn f64_to_bits_spec(f: f64) -> u64;

//@ contract float_conv ret=r
    ensures r == std_parse_f64(remove_char(s@, '_')),

//@ contract float_guard ret=r
    ensures r == !(f64_to_bits_spec(*f) & 0x7fff_ffff_ffff_ffffu64 == 0x7ff0_0000_0000_0000u64),
