// Contracts for unit V3m: the two nesting budgets of the parser TOGETHER (C05: "however arrays,
// inline tables, dotted keys, table headers and arrays of tables are combined").  The premises are
// the contracts of V3, re-proved here on the same extracted code: `enter` lets LIMIT - 1 containers
// nest, `key_depth_check` lets a dotted key have LIMIT - 1 segments and does not touch the counter.
// The conclusion is a lemma over those contracts.
//@ header
#![allow(unused_imports, dead_code, unused_variables)]
use vstd::prelude::*;

//@ prelude
struct Key {}

//@ contract RecursionCheck::check_depth ret=r
    ensures
        (r is Err) == (_depth >= LIMIT),

//@ contract RecursionCheck::enter ret=r
    requires
        old(self).current < usize::MAX,
    ensures
        final(self).current == old(self).current + 1,
        (r is Ok) == (final(self).current < LIMIT),

//@ contract key_depth_check ret=r
    ensures
        // accepted iff fewer than LIMIT segments -- independently of any counter: the closure has no
        // access to the RecursionCheck state
        (r is Ok) == (k@.len() < LIMIT),

//@ postlude
// A dotted key of n segments materialises as n nested tables (parser/state.rs and
// parser/inline_table.rs `descend_path`: one level per segment; not under contract -- this step is
// confirmed on the real code by the witness search of every run, `verif_replay witness-c05`).
// By the two contracts above, LIMIT - 1 nested inline tables, each keyed by a dotted key of
// LIMIT - 1 segments, are all accepted, so the decoded structure can be this deep:
spec fn reachable_depth(limit: nat) -> nat {
    if limit >= 1 { ((limit - 1) * (limit - 1)) as nat } else { 0 }
}

// C05 demands a small constant (O-rec: at most 128) for the depth of the decoded structure
proof fn lemma_nesting_product_small()
    ensures reachable_depth(LIMIT as nat) <= 128,
{
}
