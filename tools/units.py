"""Registry of verification units and the per-property plan (DESIGN.md sections 4 and 5)."""

K1_HARNESSES = ['k1_wschar', 'k1_non_ascii', 'k1_non_eol', 'k1_basic_unescaped', 'k1_mlb_unescaped',
                'k1_literal_char', 'k1_mll_char', 'k1_string_delims', 'k1_digit', 'k1_hexdig',
                'k1_digit1_9', 'k1_digit0_7', 'k1_digit0_1', 'k1_unquoted_char', 'k1_time_delim',
                'k1_dt_digit']

UNITS = {
    # ---------------------------------------------------------------- Verus (unbounded)
    'V1': {
        'engine': 'verus', 'complete': True,
        'title': 'toml_write/src/string.rs: metrics, style builders, write_toml_value (unbounded)',
        'witness': ['witness-v1', '4'], 'replay': 'replay-v1',
    },
    'V3': {
        'engine': 'verus', 'complete': True,
        'title': 'toml_edit parser RecursionCheck: LIMIT small, check_depth/enter/exit contracts (unbounded)',
    },
    'V4': {
        'engine': 'verus', 'complete': True,
        'title': 'calendar rule (both copies), standalone time/offset range checks: statement slices (unbounded)',
        'witness': ['witness-k3'], 'replay': 'replay-k3',
    },
    # ---------------------------------------------------------------- Kani, complete (full domain)
    'K1': {
        'engine': 'kani', 'crate': 'toml_edit', 'harnesses': K1_HARNESSES, 'complete': True,
        'title': 'parser byte-class tables == ABNF classes, all 256 bytes (loop-free, complete)',
        'timeout': 120,
    },
    'K7': {
        'engine': 'kani', 'crate': 'toml_edit',
        'harnesses': ['k7_float_guard_rejects_both_infinities', 'k7_float_guard_accepts_finite'],
        'complete': True, 'timeout': 120,
        'title': 'float overflow guard (closure extracted from fn float): all f64 bit patterns',
        'witness': ['witness-k7'], 'replay': 'replay-k7',
    },
    'K6e': {
        'engine': 'kani', 'crate': 'toml_edit',
        'harnesses': ['k6_edit_serialize_u64', 'k6_edit_serialize_i64', 'k6_edit_serialize_narrow',
                      'k6_edit_serialize_128'],
        'complete': True, 'timeout': 600,
        'title': 'toml_edit::ser::ValueSerializer integer conversions: every u64/i64/u32/../u128/i128 value',
    },
    'K6t': {
        'engine': 'kani', 'crate': 'toml',
        'harnesses': ['k6_toml_serialize_u64', 'k6_toml_visit_u64', 'k6_toml_narrow'],
        'complete': True, 'timeout': 600,
        'title': 'toml::Value serializer and visitor integer conversions: every u64 value',
    },
    'K11': {
        'engine': 'kani', 'crate': 'toml_edit', 'harnesses': ['k11_span_bridge'], 'complete': True,
        'timeout': 600,
        'title': 'serde span bridge: SpannedDeserializer -> Spanned<i64>, every (start, end, value)',
    },
    'K12': {
        'engine': 'kani', 'crate': 'toml_edit',
        'harnesses': ['k12_check_depth', 'k12_enter_exit', 'k12_check_recursion'],
        'complete': True, 'timeout': 300,
        'title': 'RecursionCheck in place: limit enforced exactly, check_recursion balanced, every counter value',
    },
    'K8': {
        'engine': 'kani', 'crate': 'toml_edit',
        'harnesses': ['k8_post_n1', 'k8_post_n2', 'k8_post_n3', 'k8_post_n4'],
        'complete': False, 'bound': 'every valid UTF-8 input of 1..4 bytes x every index', 'timeout': 1500,
        'title': 'translate_position: in-place kani::requires/ensures contract == O-pos line_col (bounded input length)',
        'witness': ['witness-k8'], 'replay': 'replay-k8',
    },
    'K3q': {
        'engine': 'kani', 'crate': 'toml_datetime', 'harnesses': ['k3_short', 'k3_time8'], 'complete': True,
        'timeout': 900,
        'title': 'Datetime::from_str == O-dt on every string of <= 3 bytes and every 8-byte string (complete per width)',
        'witness': ['witness-k3'], 'replay': 'replay-k3',
    },
}

# property -> tier -> unit list
PLAN = {
    'C10': {'quick': ['V1', 'K1'], 'thorough': ['V1', 'K1']},
    'C04': {'quick': ['V1', 'V3', 'V4', 'K1'], 'thorough': ['V1', 'V3', 'V4', 'K1', 'K12']},
    'C11': {'quick': ['K7', 'K6e', 'K6t'], 'thorough': ['K7', 'K6e', 'K6t']},
    'C01': {'quick': ['K1', 'K7', 'V4'], 'thorough': ['K1', 'K7', 'V4']},
    'C05': {'quick': ['V3', 'K12'], 'thorough': ['V3', 'K12']},
    'C14': {'quick': ['K11'], 'thorough': ['K11']},
    'C15': {'quick': ['K8'], 'thorough': ['K8']},
    'C12': {'quick': ['V4', 'K3q'], 'thorough': ['V4', 'K3q']},
}

LEVEL = 'proof'
