"""Registry of verification units and the per-property plan (DESIGN.md sections 4 and 5)."""

K1_HARNESSES = ['k1_wschar', 'k1_non_ascii', 'k1_non_eol', 'k1_basic_unescaped', 'k1_mlb_unescaped',
                'k1_literal_char', 'k1_mll_char', 'k1_string_delims', 'k1_digit', 'k1_hexdig',
                'k1_digit1_9', 'k1_digit0_7', 'k1_digit0_1', 'k1_unquoted_char', 'k1_time_delim',
                'k1_dt_digit']

UNITS = {
    # ---------------------------------------------------------------- Verus (unbounded)
    'V1': {
        'engine': 'verus', 'complete': True,
        'title': 'toml_write/src/string.rs: metrics, style builders, write_toml_value (unbounded)',
        'witness': ['witness-v1', '4'], 'replay': 'replay-v1',
    },
    'V3': {
        'engine': 'verus', 'complete': True,
        'title': 'toml_edit parser RecursionCheck: LIMIT small, check_depth/enter/exit contracts (unbounded)',
    },
    'V3m': {
        'engine': 'verus', 'complete': True, 'witness': ['witness-c05'], 'replay': 'replay-c05',
        'witness_required': ['V3m/lemma:lemma_nesting_product_small'],
        'title': 'the two nesting budgets combined: counter (LIMIT - 1 containers) x dotted-key length (LIMIT - 1 segments, not charged to the counter) must stay within the small constant C05 demands',
    },
    'V4': {
        'engine': 'verus', 'complete': True,
        'title': 'calendar rule (both copies), standalone time/offset range checks: statement slices (unbounded)',
        'witness': ['witness-k3'], 'replay': 'replay-k3',
    },
    # ---------------------------------------------------------------- Kani, complete (full domain)
    'K1': {
        'engine': 'kani', 'crate': 'toml_edit', 'harnesses': K1_HARNESSES, 'complete': True,
        'title': 'parser byte-class tables == ABNF classes, all 256 bytes (loop-free, complete)',
        'timeout': 120,
    },
    'K7': {
        'engine': 'kani', 'crate': 'toml_edit',
        'harnesses': ['k7_float_guard_rejects_both_infinities', 'k7_float_guard_accepts_finite'],
        'complete': True, 'timeout': 120,
        'title': 'float overflow guard (closure extracted from fn float): all f64 bit patterns',
        'witness': ['witness-k7'], 'replay': 'replay-k7',
    },
    'K7s': {
        'engine': 'kani', 'crate': 'toml_edit', 'harnesses': ['k7s_inf', 'k7s_nan'], 'complete': True, 'timeout': 600,
        'title': 'special-float: the six spellings [+-](inf|nan) through the real parser: value class and sign bit (complete)',
    },
    'K11f': {
        'engine': 'kani', 'crate': 'toml_write', 'harnesses': ['k11_f64_nan_and_zero', 'k11_f32_nan_and_zero'],
        'complete': False,
        'bound': 'four representative inputs per float width: NaN and zero with either sign (the branch conditions depend on class and sign only)',
        'timeout': 600, 'witness': ['witness-k11f'], 'replay': 'replay-k11f',
        'title': 'toml_write f64 / f32 writer special cases: nan / -nan / 0.0 / -0.0 carry the sign and are float literals (bounded: representatives)',
    },
    'K11s': {
        'engine': 'kani', 'crate': 'toml_write', 'harnesses': ['k11_f64_structure', 'k11_f32_structure'],
        'complete': True, 'timeout': 600, 'witness': ['witness-k11f'], 'replay': 'replay-k11f',
        'title': 'toml_write float writers, every f64 / f32 (core float Display stubbed by a token): NaN -> nan / -nan by sign, zero -> 0.0 / -0.0, infinity -> Display alone (never inf.0), anything else -> Display digits with an optional .0',
    },
    'K6e': {
        'engine': 'kani', 'crate': 'toml_edit',
        'harnesses': ['k6_edit_serialize_u64', 'k6_edit_serialize_i64', 'k6_edit_serialize_narrow',
                      'k6_edit_serialize_128', 'k6_edit_serialize_f64', 'k6_edit_serialize_f32',
                      'k6_edit_serialize_bool'],
        'complete': True, 'timeout': 600,
        'title': 'toml_edit::ser::ValueSerializer scalar conversions: every u64/i64/u32/../u128/i128, f64, f32, bool value',
    },
    'K6t': {
        'engine': 'kani', 'crate': 'toml',
        'harnesses': ['k6_toml_serialize_u64', 'k6_toml_visit_u64', 'k6_toml_narrow', 'k6_toml_floats',
                      'k6_toml_visit_rest'],
        'complete': True, 'timeout': 600,
        'title': 'toml::Value serializer and visitor scalar conversions: every u64/i64/i32/u32, f64, f32, bool value',
    },
    'K6d': {
        'engine': 'kani', 'crate': 'toml_edit',
        'harnesses': ['k6_de_narrow_u8', 'k6_de_narrow_i32', 'k6_de_narrow_u64', 'k6_de_float_bool'],
        'complete': True, 'timeout': 600,
        'title': 'toml_edit::de: a TOML integer deserialized into u8 / i32 / u64 / i64: exact or an error, every i64; a float / boolean arrives bit for bit, every f64',
    },
    'K11': {
        'engine': 'kani', 'crate': 'toml_edit', 'harnesses': ['k11_span_bridge', 'k11_key_span_bridge'], 'complete': True,
        'timeout': 600,
        'title': 'serde span bridge: SpannedDeserializer -> Spanned<i64>, every (start, end, value); KeyDeserializer -> Spanned<String>, every (start, end)',
    },
    'K14': {
        'engine': 'kani', 'crate': 'toml_edit',
        'harnesses': ['k14_apply_raw_integer', 'k14_apply_raw_scalars', 'k14_apply_raw_array',
                      'k14_apply_raw_inline_table'],
        'complete': True, 'timeout': 600,
        'title': 'span production: apply_raw records exactly the given span on every value kind, value and decor as specified (every start <= end, every i64/f64/bool)',
    },
    'K14s': {
        'engine': 'kani', 'crate': 'toml_edit',
        'harnesses': ['k14_on_keyval_span', 'k14_on_keyval_no_span', 'k14_std_header_span'],
        'complete': False, 'bound': 'one table with one fixed key name; every span value', 'timeout': 900,
        'title': 'ParseState span bookkeeping: a key/value extends the current table span to the value end and keeps its start; a [header] starts a table with exactly the header span (bounded: fixed key names, plain keys)',
    },
    'K14d': {
        'engine': 'kani', 'crate': 'toml_edit',
        'harnesses': ['k14_despan_array', 'k14_despan_tables', 'k14_despan_scalar_and_item'],
        'complete': False, 'bound': 'empty containers (every span); scalars over 4-byte ASCII inputs', 'timeout': 900,
        'title': 'despan: Array / ArrayOfTables / Table / InlineTable forget their own span (every span); a scalar and the Item around it forget theirs and keep input[span] (bounded: empty containers, 4-byte inputs)',
    },
    'K14r8': {
        'engine': 'kani', 'crate': 'toml_edit', 'harnesses': ['k14_rawstring_despan_n8'],
        'complete': False, 'bound': 'inputs of exactly 8 ASCII bytes, every span inside them', 'timeout': 1200,
        'title': 'RawString: to_str / despan give exactly input[span] (bounded: 8-byte ASCII inputs)',
    },
    'K14r': {
        'engine': 'kani', 'crate': 'toml_edit', 'harnesses': ['k14_rawstring_despan'],
        'complete': False, 'bound': 'inputs of exactly 4 ASCII bytes, every span inside them',
        'timeout': 600,
        'title': 'RawString: stored span reads back; to_str / despan give exactly input[span] (bounded: 4-byte ASCII inputs)',
    },
    'K12': {
        'engine': 'kani', 'crate': 'toml_edit',
        'harnesses': ['k12_check_depth', 'k12_enter_exit', 'k12_check_recursion'],
        'complete': True, 'timeout': 300,
        'title': 'RecursionCheck in place: limit enforced exactly, check_recursion balanced, every counter value',
    },
    'V5': {
        'engine': 'verus', 'complete': True,
        'title': 'toml_datetime Datetime::from_str == date-time grammar (O-dt) on EVERY string (unbounded)',
        'witness': ['witness-k3'], 'replay': 'replay-k3',
    },
    'V6': {
        'engine': 'verus', 'complete': True,
        'title': 'toml_datetime Display for Date/Time/Offset/Datetime: printed text is in the date-time grammar with the same value (unbounded)',
        'witness': ['witness-k3'], 'replay': 'replay-k3',
    },
    'V7': {
        'engine': 'verus', 'complete': True,
        'title': 'document grammar time_secfrac closure: any digit string -> first nine digits right-padded (truncation), unbounded',
        'witness': ['witness-k3'], 'replay': 'replay-k3',
    },
    'V8': {
        'engine': 'verus', 'complete': True,
        'title': 'integer literal radix-conversion closures (extracted from fn integer): Ok iff the value fits i64, value exact (unbounded, under assumed from_str_radix contracts)',
        'witness': ['witness-k10'], 'replay': 'replay-k10',
    },
    'V9': {
        'engine': 'verus', 'complete': True,
        'title': 'hexescape::<N> closures: exactly N digits, hex value, Unicode scalar values only (unbounded, under assumed from_str_radix / char::from_u32 contracts)',
    },
    'V16': {
        'engine': 'verus', 'complete': True,
        'title': 'first-byte dispatch tables of the grammar: newline (LF / CR LF), document line dispatch (# [ newline keyval), simple-key (basic / literal / unquoted) = the ABNF alternatives (every byte)',
    },
    'V15': {
        'engine': 'verus', 'complete': True,
        'title': 'string value closures of parser/strings.rs: ml-literal body with every CRLF -> LF and nothing else changed; ml-basic newline contributes LF, line-ending backslash nothing, an escape its character (unbounded, under assumed str::contains / str::replace contracts)',
    },
    'V14': {
        'engine': 'verus', 'complete': True,
        'title': 'toml::de front end: Deserializer::new / ValueDeserializer::new keep exactly the text they are given (spans and error locations are offsets into the caller\'s text)',
    },
    'V13': {
        'engine': 'verus', 'complete': True,
        'title': 'location of deserialization errors: every map_err closure of ValueDeserializer / TableMapAccess / Deserializer attaches the value (or key) span only when the error has none, adds the key, attaches the source text; accessors of de::Error and TomlError (unbounded)',
    },
    'V12': {
        'engine': 'verus', 'complete': True,
        'title': 'float literal conversion closure of fn float: value = str::parse::<f64> of the text with every _ removed; guard = not infinite (unbounded, under assumed replace / parse / is_infinite contracts)',
    },
    'V11': {
        'engine': 'verus', 'complete': True,
        'title': 'document grammar date-time assembly: closures of date_time / partial_time / time_offset, full_date_ result, From<Date>/From<Time> for Datetime: every part lands unchanged in its field (unbounded)',
    },
    'V10': {
        'engine': 'verus', 'complete': True, 'witness': ['witness-k8'], 'replay': 'replay-k8',
        'title': 'Display for TomlError: never panics, prints line + 1 / column + 1 and the caret under the column, whole text pinned (unbounded, under the assumed contract of translate_position and the TomlError invariant)',
    },
    # ---------------------------------------------------------------- Kani, complete per fixed input width
    'K2': {
        'engine': 'kani', 'crate': 'toml_edit',
        'harnesses': ['k2_date_month', 'k2_date_mday', 'k2_time_hour', 'k2_time_minute', 'k2_time_second'],
        'complete': True, 'timeout': 900,
        'title': 'document grammar 2-digit field parsers == O-date ranges/values on every 3-byte input (2 digits + lookahead)',
        'witness': ['witness-k3'], 'replay': 'replay-k3',
    },
    'K2y': {
        'engine': 'kani', 'crate': 'toml_edit', 'harnesses': ['k2_date_fullyear'], 'complete': True, 'timeout': 900,
        'title': 'document grammar date-fullyear == 4 digits value on every 5-byte input',
        'witness': ['witness-k3'], 'replay': 'replay-k3',
    },
    'K3q': {
        'engine': 'kani', 'crate': 'toml_datetime', 'harnesses': ['k3_short', 'k3_time8'], 'complete': True,
        'timeout': 1200,
        'title': 'Datetime::from_str == O-dt in situ on every string of <= 3 bytes and every 8-byte string',
        'witness': ['witness-k3'], 'replay': 'replay-k3',
    },
    'K3t': {
        'engine': 'kani', 'crate': 'toml_datetime',
        'harnesses': ['k3_len4', 'k3_len5', 'k3_len6', 'k3_len7', 'k3_len9', 'k3_date10', 'k3_frac1', 'k3_frac3'],
        'complete': True, 'timeout': 4800,
        'title': 'Datetime::from_str == O-dt in situ on every string of 4-7, 9, 10 bytes; "12:34:56." + every 1- and 3-byte tail',
        'witness': ['witness-k3'], 'replay': 'replay-k3',
    },
    'K3a': {
        'engine': 'kani', 'crate': 'toml_datetime', 'harnesses': ['k3a_len11', 'k3a_len12'], 'complete': False,
        'bound': 'every ASCII string of 11 and 12 bytes', 'timeout': 5400,
        'title': 'Datetime::from_str == O-dt in situ on every ASCII string of 11 and 12 bytes (bounded: ASCII only)',
        'witness': ['witness-k3'], 'replay': 'replay-k3',
    },
    'K9q': {
        'engine': 'kani', 'crate': 'toml_edit', 'harnesses': ['k9_ws_n3', 'k9_newline_n3'],
        'complete': False, 'bound': 'every valid UTF-8 input of 3 bytes', 'timeout': 900,
        'title': 'trivia.rs ws / newline in situ: bytes taken = longest run of wschar / exactly LF or CR LF (bounded: 3-byte inputs)',
    },
    'K9': {
        'engine': 'kani', 'crate': 'toml_edit',
        'harnesses': ['k9_ws_n3', 'k9_newline_n3', 'k9_ws_newline_n2', 'k9_ws_newline_n3', 'k9_ws_newlines_n2', 'k9_ws_newlines_n3'],
        'complete': False, 'bound': 'every valid UTF-8 input of 2 and 3 bytes', 'timeout': 3000,
        'title': 'trivia.rs ws / newline / ws_newline / ws_newlines in situ: bytes taken = longest run of the ABNF rule (ws-newline = *( wschar / newline ), ws-newlines = newline ws-newline) (bounded: 2- and 3-byte inputs)',
    },
    'K5': {
        'engine': 'kani', 'crate': 'toml_edit', 'harnesses': ['k5_hexescape4', 'k5_hexescape8'], 'complete': True,
        'timeout': 7200, 'max_jobs': 4,
        'title': 'hexescape::<4>/<8> == O-esc hex_scalar on every 5- / 9-byte input (digits + lookahead)',
    },
    'K8q': {
        'engine': 'kani', 'crate': 'toml_edit', 'harnesses': ['k8_post_n1', 'k8_post_n2'],
        'complete': False, 'bound': 'every valid UTF-8 input of 1..2 bytes x every index', 'timeout': 900,
        'witness': ['witness-k8'], 'replay': 'replay-k8',
        'title': 'translate_position: in-place contract == O-pos line_col, no panic (bounded input length 1..2)',
    },
    'K8': {
        'engine': 'kani', 'crate': 'toml_edit',
        'harnesses': ['k8_post_n1', 'k8_post_n2', 'k8_post_n3'],
        'complete': False, 'bound': 'every valid UTF-8 input of 1..3 bytes x every index', 'timeout': 1500,
        'title': 'translate_position: in-place kani::requires/ensures contract == O-pos line_col (bounded input length 1..3)',
        'witness': ['witness-k8'], 'replay': 'replay-k8',
    },
    'K8t': {
        'engine': 'kani', 'crate': 'toml_edit',
        'harnesses': ['k8_post_n4'],
        'complete': False, 'bound': 'every valid UTF-8 input of 4 bytes x every index',
        'timeout': 5400,
        'title': 'translate_position contract on 4-byte inputs (bounded)',
        'witness': ['witness-k8'], 'replay': 'replay-k8',
    },
}

# property -> tier -> unit list
PLAN = {
    'C10': {'quick': ['V1', 'K1'], 'thorough': ['V1', 'K1']},
    'C04': {'quick': ['V1', 'V3', 'V4', 'V5', 'V6', 'V7', 'V9', 'V10', 'V11', 'K1', 'K12', 'K8q'], 'thorough': ['V1', 'V3', 'V4', 'V5', 'V6', 'V7', 'V9', 'V10', 'V11', 'K1', 'K12', 'K8', 'K8t', 'K3t', 'K5']},
    'C11': {'quick': ['K7', 'K7s', 'K6e', 'K6t', 'K6d', 'V8', 'V12', 'K11f', 'K11s'], 'thorough': ['K7', 'K7s', 'K6e', 'K6t', 'K6d', 'V8', 'V12', 'K11f', 'K11s']},
    'C01': {'quick': ['K1', 'K7', 'V3', 'V4', 'V8', 'V9', 'V16', 'K2', 'K9q'], 'thorough': ['K1', 'K7', 'V3', 'V4', 'V8', 'V9', 'V16', 'K2', 'K2y', 'K5', 'K9']},
    'C02': {'quick': ['K2', 'K7s', 'K6t', 'K6d', 'V5', 'V7', 'V8', 'V9', 'V11', 'V12', 'V15', 'K9q'], 'thorough': ['K2', 'K2y', 'K7s', 'K6t', 'K6d', 'V5', 'V7', 'V8', 'V9', 'V11', 'V12', 'V15', 'K5', 'K9']},
    'C05': {'quick': ['V3', 'V3m', 'K12'], 'thorough': ['V3', 'V3m', 'K12']},
    'C12': {'quick': ['V4', 'V5', 'V6', 'V7', 'V11', 'K2', 'K3q'], 'thorough': ['V4', 'V5', 'V6', 'V7', 'V11', 'K2', 'K2y', 'K3q', 'K3t', 'K3a']},
    'C14': {'quick': ['K11', 'K14', 'K14r', 'K14s', 'K14d', 'V14'], 'thorough': ['K11', 'K14', 'K14r', 'K14r8', 'K14s', 'K14d', 'V14']},
    'C15': {'quick': ['V10', 'V13', 'V3', 'K8q'], 'thorough': ['V10', 'V13', 'V3', 'K8', 'K8t']},
}

LEVEL = 'proof'
