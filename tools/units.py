"""Registry of verification units and the per-property plan (DESIGN.md sections 4 and 5)."""

K1_HARNESSES = ['k1_wschar', 'k1_non_ascii', 'k1_non_eol', 'k1_basic_unescaped', 'k1_mlb_unescaped',
                'k1_literal_char', 'k1_mll_char', 'k1_string_delims', 'k1_digit', 'k1_hexdig',
                'k1_digit1_9', 'k1_digit0_7', 'k1_digit0_1', 'k1_unquoted_char', 'k1_time_delim',
                'k1_dt_digit']

UNITS = {
    'V1': {
        'engine': 'verus', 'complete': True,
        'title': 'toml_write/src/string.rs: metrics, style builders, write_toml_value (unbounded)',
        'witness': ['witness-v1', '4'], 'replay': 'replay-v1',
    },
    'K1': {
        'engine': 'kani', 'crate': 'toml_edit', 'harnesses': K1_HARNESSES, 'complete': True,
        'title': 'parser byte-class tables == ABNF classes, all 256 bytes (loop-free, complete)',
        'timeout': 120,
    },
    'K7': {
        'engine': 'kani', 'crate': 'toml_edit',
        'harnesses': ['k7_float_guard_rejects_both_infinities', 'k7_float_guard_accepts_finite'],
        'complete': True, 'timeout': 120,
        'title': 'float overflow guard (closure extracted from fn float): all f64 bit patterns',
        'witness': ['witness-k7'], 'replay': 'replay-k7',
    },
}

# property -> tier -> unit list
PLAN = {
    'C10': {'quick': ['V1', 'K1'], 'thorough': ['V1', 'K1']},
    'C04': {'quick': ['V1', 'K1'], 'thorough': ['V1', 'K1']},
    'C11': {'quick': ['K7'], 'thorough': ['K7']},
    'C01': {'quick': ['K1', 'K7'], 'thorough': ['K1', 'K7']},
}

LEVEL = 'proof'
