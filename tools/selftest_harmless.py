#!/usr/bin/env python3
"""Harmless-edit self-test: applies edits that do NOT break any property to a scratch
worktree of /repo and runs the checks there (VERIF_REPO=<worktree>).  A check may answer
exit 0 (still proved) or exit 2 (undecided: lost anchor / renamed variable in a proof hint),
but never exit 1: that would be a false alarm.

usage: selftest_harmless.py <worktree>     (a clean checkout of /repo's HEAD, outside /repo)
"""
import json
import os
import re
import subprocess
import sys
import time

VERIF = os.path.dirname(os.path.dirname(os.path.abspath(__file__)))

# (id, file, [(regex, replacement, count)], [properties to check])
EDITS = [
    ('H1-comments', 'crates/toml_write/src/string.rs',
     [(r'(?m)^(\s*)let mut unescaped_end = 0;', r'\1// harmless comment\n\n\1let mut unescaped_end = 0;', 1),
      (r'(?m)^(\s*)let mut metrics = Self::new\(\);', r'\1let mut metrics = Self::new(); // trailing comment', 0)],
     ['C10']),
    ('H2-rename-local', 'crates/toml_write/src/string.rs',
     [(r'\bprev_single_quotes\b', 'prev_sq', 0)], ['C10']),
    ('H3-reorder-independent', 'crates/toml_write/src/string.rs',
     [(r"(?s)(            if \*byte == b'\\'' \{.*?\n            \} else \{\n                prev_single_quotes = 0;\n            \}\n)(            if \*byte == b'\"' \{.*?\n            \} else \{\n                prev_double_quotes = 0;\n            \}\n)", r'\2\1', 1)],
     ['C10']),
    ('H4-flip-comparison', 'crates/toml_datetime/src/datetime.rs',
     [(r'if time\.hour > 23 \{', 'if 23 < time.hour {', 1)], ['C12']),
    ('H5-rename-local', 'crates/toml_edit/src/error.rs',
     [(r'\bsafe_index\b', 'clamped', 0)], ['C15']),
    ('H6-equivalent-guard', 'crates/toml_edit/src/parser/numbers.rs',
     [(r'\.verify\(\|f: &f64\| !f\.is_infinite\(\)\)', '.verify(|f: &f64| f.is_finite() || f.is_nan())', 1)], ['C11']),
    ('H7-smaller-limit', 'crates/toml_edit/src/parser/mod.rs',
     [(r'const LIMIT: usize = 80;', 'const LIMIT: usize = 64;', 1)], ['C05']),
    ('H8-equivalent-leap-rule', 'crates/toml_edit/src/parser/datetime.rs',
     [(r'let is_leap_year = \(year % 4 == 0\) && \(\(year % 100 != 0\) \|\| \(year % 400 == 0\)\);',
       'let is_leap_year = (year % 400 == 0) || ((year % 4 == 0) && (year % 100 != 0));', 1)], ['C01']),
    ('H9-to-i64-via-try-from', 'crates/toml_edit/src/ser/value.rs',
     [(r'(?s)let v: i64 = v\s*\.try_into\(\)\s*\.map_err\(\|_err\| Error::OutOfRange\(Some\("u64"\)\)\)\?;',
       'let v: i64 = i64::try_from(v).map_err(|_err| Error::OutOfRange(Some("u64")))?;', 1)], ['C11']),
    ('H10-rename-local-render', 'crates/toml_edit/src/error.rs',
     [(r'\bgutter\b', 'gutter_width', 0)], ['C15']),
    ('H11-negated-branch', 'crates/toml_edit/src/parser/strings.rs',
     [(r'(?s)if t\.contains\("\\r\\n"\) \{\s*Cow::Owned\(t\.replace\("\\r\\n", "\\n"\)\)\s*\} else \{\s*Cow::Borrowed\(t\)\s*\}',
       lambda m: 'if !t.contains("\\r\\n") {\n                    Cow::Borrowed(t)\n                } else {\n                    Cow::Owned(t.replace("\\r\\n", "\\n"))\n                }', 1)], ['C02']),
    ('H12-field-order', 'crates/toml_edit/src/parser/datetime.rs',
     [(r'(?s)Some\(\(_, time, offset\)\) => Datetime \{\s*date: Some\(date\),\s*time: Some\(time\),\s*offset,\s*\}',
       'Some((_, time, offset)) => Datetime {\n                            offset,\n                            time: Some(time),\n                            date: Some(date),\n                        }', 1)], ['C12']),
    ('H13-guard-order', 'crates/toml_edit/src/de/table.rs',
     [(r'(?s)if e\.span\(\)\.is_none\(\) \{\s*e\.set_span\(span\);\s*\}\s*e\.add_key\(k\.get\(\)\.to_owned\(\)\);',
       'e.add_key(k.get().to_owned());\n                        if e.span().is_none() {\n                            e.set_span(span);\n                        }', 1)], ['C15']),
    ('H14-match-arm-order', 'crates/toml_edit/src/parser/strings.rs',
     [(r"(?s)(        b'b' => empty\.value\('\\u\{8\}'\),\n)(        b'f' => empty\.value\('\\u\{c\}'\),\n)", r'\2\1', 1)], ['C02']),
]


def sh(cmd, cwd=None, env=None, timeout=7200):
    p = subprocess.run(cmd, cwd=cwd, env=env, shell=isinstance(cmd, str), capture_output=True, text=True, timeout=timeout)
    return p.returncode, p.stdout + p.stderr


def main():
    wt = sys.argv[1]
    only = set(sys.argv[2:])
    sh(['git', '-C', wt, 'checkout', '--', '.'])
    rows = []
    for eid, rel, subs, props in EDITS:
        if only and eid not in only:
            continue
        path = os.path.join(wt, rel)
        text = open(path).read()
        new = text
        applied = 0
        for pat, repl, cnt in subs:
            new, n = re.subn(pat, repl, new, count=cnt)
            applied += n
        if new == text or applied == 0:
            rows.append((eid, '-', 'edit did not apply', ''))
            continue
        open(path, 'w').write(new)
        rc, out = sh('CARGO_NET_OFFLINE=true CARGO_TARGET_DIR=%s/target cargo check --workspace --offline 2>&1 | tail -3' % wt, cwd=wt)
        if 'error' in out and 'warning' not in out.split('error')[0][-20:]:
            if 'could not compile' in out:
                rows.append((eid, '-', 'edit does not compile', out[-200:]))
                sh(['git', '-C', wt, 'checkout', '--', '.'])
                continue
        for prop in props:
            t0 = time.time()
            env = dict(os.environ, VERIF_REPO=wt)
            rc, out = sh([os.path.join(VERIF, 'check'), prop, '--tier', 'quick'], cwd=VERIF, env=env)
            verdict = {0: 'exit 0 (still proved)', 1: 'exit 1  ** FALSE ALARM **', 2: 'exit 2 (undecided)'}.get(rc, 'rc %d' % rc)
            why = [l.strip() for l in out.splitlines() if 'UNDECIDED:' in l or l.startswith('VIOLATION') or 'FAILED obligation' in l][:2]
            rows.append((eid, prop, verdict, '; '.join(why)[:200]))
            print('%-26s %-4s %-28s %s' % rows[-1], flush=True)
        sh(['git', '-C', wt, 'checkout', '--', '.'])
    print()
    bad = 0
    for r in rows:
        print('%-26s %-4s %-28s %s' % r)
        if 'FALSE ALARM' in r[2]:
            bad += 1
    json.dump([{'edit': r[0], 'property': r[1], 'verdict': r[2], 'detail': r[3]} for r in rows],
              open(os.path.join(VERIF, 'out', 'selftest_harmless.json'), 'w'), indent=1)
    return 1 if bad else 0


if __name__ == '__main__':
    sys.exit(main())
