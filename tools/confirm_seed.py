#!/usr/bin/env python3
"""Confirms a seeded change produced by a sub-agent, in a scratch worktree (never /repo):
  1. patch applies to HEAD;  2. full test suite passes with it;  3. the demonstration fails
  with it;  4. the demonstration passes without it.
Then stores it as /verif/seeded/<id>/ (patch.diff, demo, meta.json).

usage: confirm_seed.py <src dir with patch.diff+demo.rs+notes.md> <seed id> <property> <worktree>
       [--demo-crate toml] [--skip-suite]
"""
import argparse
import json
import os
import re
import shutil
import subprocess
import sys
import time

VERIF = os.path.dirname(os.path.dirname(os.path.abspath(__file__)))


def sh(cmd, cwd, timeout=3600):
    env = dict(os.environ, CARGO_NET_OFFLINE='true', CARGO_TARGET_DIR=os.path.join(cwd, 'target'))
    p = subprocess.run(cmd, cwd=cwd, env=env, shell=True, capture_output=True, text=True, timeout=timeout)
    return p.returncode, p.stdout + p.stderr


def totals(out):
    out = re.sub(r'\x1b\[[0-9;]*m', '', out)
    p = f = 0
    for m in re.finditer(r'test result: \w+\. (\d+) passed; (\d+) failed', out):
        p += int(m.group(1))
        f += int(m.group(2))
    return p, f


def main():
    ap = argparse.ArgumentParser()
    ap.add_argument('src')
    ap.add_argument('seed_id')
    ap.add_argument('property')
    ap.add_argument('worktree')
    ap.add_argument('--demo-crate', default='toml')
    ap.add_argument('--skip-suite', action='store_true')
    ap.add_argument('--demo-kind', default='test', choices=['test', 'example'])
    a = ap.parse_args()
    wt = a.worktree
    patch = os.path.join(a.src, 'patch.diff')
    demo = None
    for n in ('demo.rs', 'demo_test.rs'):
        if os.path.exists(os.path.join(a.src, n)):
            demo = os.path.join(a.src, n)
    assert demo, 'no demo file'
    ran = []
    # clean
    sh('git checkout -- . && git clean -fdq -e target', wt)
    rc, out = sh('git apply --check %s' % patch, wt)
    assert rc == 0, 'patch does not apply: ' + out
    test_name = 'seed_' + re.sub(r'\W', '_', a.seed_id)
    pkg = a.demo_crate if a.demo_crate != 'toml' else 'toml@' + toml_version(wt)
    if a.demo_kind == 'test':
        demo_dst = os.path.join(wt, 'crates', a.demo_crate, 'tests', test_name + '.rs')
        demo_cmd = 'cargo test -p %s --test %s --offline' % (pkg, test_name)
    else:
        demo_dst = os.path.join(wt, 'crates', a.demo_crate, 'examples', test_name + '.rs')
        demo_cmd = 'cargo run -q -p %s --example %s --offline' % (pkg, test_name)
    result = {'seed': a.seed_id, 'property': a.property}
    # 4. demo passes without the change
    shutil.copy(demo, demo_dst)
    rc, out = sh(demo_cmd, wt)
    p, f = totals(out)
    result['demo_without_change'] = {'rc': rc, 'passed': p, 'failed': f}
    ran.append(demo_cmd + '  (unchanged tree) -> rc %d, %d passed, %d failed' % (rc, p, f))
    ok_without = (rc == 0 and f == 0 and (p > 0 or a.demo_kind == 'example'))
    # 3. demo fails with the change
    rc, out = sh('git apply %s' % patch, wt)
    assert rc == 0
    rc, out = sh(demo_cmd, wt)
    p, f = totals(out)
    result['demo_with_change'] = {'rc': rc, 'passed': p, 'failed': f}
    ran.append(demo_cmd + '  (change applied) -> rc %d, %d passed, %d failed' % (rc, p, f))
    ok_with = (rc != 0)  # a stack-overflow abort prints no result line
    # 2. full suite passes with the change (demo removed)
    os.remove(demo_dst)
    if not a.skip_suite:
        t0 = time.time()
        rc, out = sh('cargo test --workspace --no-fail-fast --offline', wt, timeout=7200)
        p, f = totals(out)
        result['suite_with_change'] = {'rc': rc, 'passed': p, 'failed': f, 'wall_s': round(time.time() - t0)}
        ran.append('cargo test --workspace --no-fail-fast --offline  (change applied) -> rc %d, %d passed, %d failed' % (rc, p, f))
        ok_suite = (rc == 0 and f == 0 and p > 1000)
    else:
        ok_suite = None
    sh('git checkout -- . && git clean -fdq -e target', wt)
    result['confirmed'] = bool(ok_without and ok_with and (ok_suite is not False))
    result['ran'] = ran
    notes = ''
    if os.path.exists(os.path.join(a.src, 'notes.md')):
        notes = open(os.path.join(a.src, 'notes.md')).read()
    result['needs_to_manifest'] = extract_trigger(notes)
    result['agent_notes_excerpt'] = notes[:1500]
    print(json.dumps(result, indent=1))
    if result['confirmed']:
        d = os.path.join(VERIF, 'seeded', a.seed_id)
        os.makedirs(d, exist_ok=True)
        shutil.copy(patch, os.path.join(d, 'patch.diff'))
        shutil.copy(demo, os.path.join(d, 'demo.rs'))
        if notes:
            with open(os.path.join(d, 'notes.md'), 'w') as fh:
                fh.write(notes)
        meta = {'id': a.seed_id, 'breaks_property': a.property, 'needs_to_manifest': result['needs_to_manifest'],
                'demo': 'copy demo.rs to %s and run: %s' % (os.path.relpath(demo_dst, wt), demo_cmd),
                'confirmed_by': result['ran'], 'detected_by': None}
        with open(os.path.join(d, 'meta.json'), 'w') as fh:
            json.dump(meta, fh, indent=1)
    return 0 if result['confirmed'] else 1


def toml_version(wt):
    txt = open(os.path.join(wt, 'crates', 'toml', 'Cargo.toml')).read()
    return re.search(r'(?m)^version\s*=\s*"([^"]+)"', txt).group(1)


def extract_trigger(notes):
    m = re.search(r'(?is)(trigger[^\n]*\n.*?)(\n#|\n\*\*Why|\Z)', notes)
    return (m.group(1).strip()[:600] if m else notes[:300])


if __name__ == '__main__':
    sys.exit(main())
