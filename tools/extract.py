#!/usr/bin/env python3
"""Engine V, step 1-3: mechanical extraction of real functions from /repo, fixed rewrite
rules, contract injection.  See DESIGN.md section 2.1.

Unit description: specs/<unit>.toml
    name, source (path relative to the repo root), rules = ["R1",..], contracts = "<file>"
    [[item]] kind = struct|enum|const|fn|impl|slice ...

Contract file: specs/<unit>.verus.rs, sections introduced by lines starting with `//@ `:
    //@ header                      text placed before `verus! {` (use-lines)
    //@ prelude                     spec fns / lemmas placed before the extracted items
    //@ postlude                    placed after the extracted items (inside verus!)
    //@ main                        placed after `verus! { }` (fidelity battery `fn main`)
    //@ contract <fnpath> [ret=<id>]        requires/ensures, placed between signature and body
    //@ loop <fnpath> <ordinal> [iter=<id>] invariant/decreases for the k-th loop of the fn
    //@ proof <fnpath> before|after <nth> /<regex>/   proof text placed before/after the line
    //@ attr <fnpath>               attribute lines placed before the fn
Every section that names an anchor which cannot be found raises LostAnchor (exit 2).
"""
import hashlib
import json
import os
import re
import sys
import tomllib

sys.path.insert(0, os.path.dirname(os.path.abspath(__file__)))
from rustlex import lex, significant, match_close, LexError  # noqa: E402


class LostAnchor(Exception):
    pass


class Unsupported(Exception):
    pass


# --------------------------------------------------------------------------------------
# contract file parsing


def parse_contract_file(path):
    sections = []
    cur = None
    with open(path) as f:
        for ln, line in enumerate(f, 1):
            if line.startswith('//@ '):
                words = line[4:].strip()
                cur = {'head': words, 'text': [], 'line': ln}
                sections.append(cur)
            elif line.startswith('//@'):
                cur = None
            elif cur is not None:
                cur['text'].append(line)
    out = {'header': '', 'prelude': '', 'postlude': '', 'main': '', 'contract': {}, 'loop': {},
           'proof': [], 'attr': {}, 'sig': {}, 'closure': {}}
    for s in sections:
        text = ''.join(s['text'])
        head = s['head']
        kind = head.split()[0]
        if kind in ('header', 'prelude', 'postlude', 'main'):
            out[kind] += text
        elif kind == 'contract':
            parts = head.split()
            fn = parts[1]
            ret = None
            for p in parts[2:]:
                if p.startswith('ret='):
                    ret = p[4:]
            out['contract'][fn] = {'text': text, 'ret': ret, 'line': s['line']}
        elif kind == 'loop':
            parts = head.split()
            fn, ordinal = parts[1], int(parts[2])
            it = None
            for p in parts[3:]:
                if p.startswith('iter='):
                    it = p[5:]
            out['loop'][(fn, ordinal)] = {'text': text, 'iter': it, 'line': s['line']}
        elif kind == 'proof':
            m = re.match(r'proof\s+(\S+)\s+(before|after)\s+(\d+)\s+/(.*)/\s*$', head)
            if not m:
                raise Unsupported('bad proof section header line %d: %s' % (s['line'], head))
            out['proof'].append({'fn': m.group(1), 'where': m.group(2), 'nth': int(m.group(3)),
                                 'regex': m.group(4), 'text': text, 'line': s['line']})
        elif kind == 'closure':
            parts = head.split()
            fn, ordinal = parts[1], int(parts[2])
            m = re.search(r'ret=(\w+):(.*)$', head)
            if not m:
                raise Unsupported('closure section needs ret=<id>:<type> (line %d)' % s['line'])
            out['closure'][(fn, ordinal)] = {'text': text, 'ret': m.group(1), 'type': m.group(2).strip(),
                                             'line': s['line']}
        elif kind == 'attr':
            out['attr'][head.split()[1]] = text
        else:
            raise Unsupported('unknown section kind %r line %d' % (kind, s['line']))
    return out


# --------------------------------------------------------------------------------------
# item location


class Source:
    def __init__(self, path):
        self.path = path
        with open(path) as f:
            self.text = f.read()
        self.toks = lex(self.text)
        self.sig = significant(self.toks)
        # line starts
        self.line_starts = [0]
        for m in re.finditer('\n', self.text):
            self.line_starts.append(m.end())
        # brace depth of every significant token (depth before the token is applied)
        self.depth = []
        d = 0
        for si in self.sig:
            t = self.toks[si]
            if t[0] == 'punct' and t[1] == '}':
                d -= 1
            self.depth.append(d)
            if t[0] == 'punct' and t[1] == '{':
                d += 1

    def line_of(self, off):
        import bisect
        return bisect.bisect_right(self.line_starts, off)

    def tok(self, si):
        return self.toks[self.sig[si]]

    def find_seq(self, words, lo=0, hi=None):
        """find significant-token index where the token texts equal `words`; yields all."""
        hi = len(self.sig) if hi is None else hi
        n = len(words)
        for si in range(lo, hi - n + 1):
            if all(self.tok(si + k)[1] == words[k] for k in range(n)):
                yield si

    def item_start(self, si):
        """walk back from significant index si over attributes / visibility / qualifiers"""
        k = si
        while k > 0:
            t = self.tok(k - 1)
            if t[1] in ('pub', 'const', 'unsafe', 'async', 'extern', 'default'):
                k -= 1
                continue
            if t[1] == ')':
                # pub(crate) / pub(super)
                j = k - 1
                while j > 0 and self.tok(j)[1] != '(':
                    j -= 1
                if j > 0 and self.tok(j - 1)[1] == 'pub':
                    k = j - 1
                    continue
                break
            if t[1] == ']':
                # attribute #[...]
                depth = 0
                j = k - 1
                while j >= 0:
                    tt = self.tok(j)[1]
                    if tt == ']':
                        depth += 1
                    elif tt == '[':
                        depth -= 1
                        if depth == 0:
                            break
                    j -= 1
                if j > 0 and self.tok(j - 1)[1] == '#':
                    k = j - 1
                    continue
                break
            break
        return k

    def body_open(self, si):
        """from significant index si (at `fn`/`impl`/...), index of the first `{` at
        paren/bracket depth 0, or the `;` that ends a body-less item"""
        depth = 0
        k = si
        while k < len(self.sig):
            t = self.tok(k)[1]
            if self.tok(k)[0] == 'punct':
                if t in '([':
                    depth += 1
                elif t in ')]':
                    depth -= 1
                elif t == '{' and depth == 0:
                    return k
                elif t == ';' and depth == 0:
                    return k
            k += 1
        raise LostAnchor('no body for item at %d' % self.tok(si)[2])

    def close_of(self, si):
        j = match_close(self.toks, self.sig[si])
        # convert raw index back to significant index
        import bisect
        return bisect.bisect_left(self.sig, j)


def locate(src, kind, name, lo=0, hi=None):
    """returns (si_start, si_keyword, si_open, si_close) in significant-token indices"""
    kw = {'fn': 'fn', 'struct': 'struct', 'enum': 'enum', 'const': 'const', 'mod': 'mod', 'static': 'static'}[kind]
    hits = list(src.find_seq([kw, name], lo, hi))
    # only items directly inside the enclosing scope (module / impl body), not nested deeper
    want = src.depth[lo] + 1 if lo else 0
    hits = [h for h in hits if src.depth[h] == want]
    if kind in ('const', 'static'):
        hits = [h for h in hits if src.tok(h + 2)[1] == ':']
    if len(hits) != 1:
        raise LostAnchor('%s %s: %d matches in %s' % (kind, name, len(hits), src.path))
    si = hits[0]
    start = src.item_start(si)
    op = src.body_open(si)
    if src.tok(op)[1] == ';':
        return start, si, op, op
    if kind in ('const', 'static'):
        # const X: T = expr;  -- body_open may hit a `{` in expr; find terminating ';'
        k = si
        depth = 0
        while True:
            t = src.tok(k)
            if t[0] == 'punct':
                if t[1] in '([{':
                    depth += 1
                elif t[1] in ')]}':
                    depth -= 1
                elif t[1] == ';' and depth == 0:
                    return start, si, k, k
            k += 1
    cl = src.close_of(op)
    # tuple struct `struct X(..);`
    return start, si, op, cl


def locate_impl(src, type_name, trait=None):
    hits = []
    for si in src.find_seq(['impl']):
        prev = src.tok(si - 1)[1] if si > 0 else '}'
        if prev not in ('}', ';', ']', '{', 'unsafe'):
            continue    # `impl Trait` in type position
        op = src.body_open(si)
        hdr = [src.tok(k)[1] for k in range(si, op)]
        # strip generics: find the self type = last identifier before `{` that is not in <>
        flat = ' '.join(hdr)
        # impl<'s> TomlStringBuilder<'s>   |  impl Trait for Type
        m = re.match(r"impl(?: <[^{]*?>)? (?:(.+?) for )?([A-Za-z_][A-Za-z0-9_:]*)", flat)
        if not m:
            continue
        tr, ty = m.group(1), m.group(2)
        if ty.split('::')[-1].strip() != type_name:
            continue
        if (trait is None) != (tr is None):
            continue
        if trait is not None and trait.replace(' ', '') not in tr.replace(' ', ''):
            continue
        hits.append((si, op))
    if len(hits) != 1:
        raise LostAnchor('impl %s%s: %d matches in %s' % (
            (trait + ' for ') if trait else '', type_name, len(hits), src.path))
    si, op = hits[0]
    return src.item_start(si), si, op, src.close_of(op)


# --------------------------------------------------------------------------------------
# rewrite rules (each keeps the number of lines unchanged)


def split_format(fmt):
    """split a format string literal body into pieces: ('lit', text) / ('hole', spec)"""
    out = []
    i = 0
    cur = ''
    while i < len(fmt):
        c = fmt[i]
        if c == '{':
            if fmt.startswith('{{', i):
                cur += '{'
                i += 2
                continue
            j = fmt.index('}', i)
            if cur:
                out.append(('lit', cur))
                cur = ''
            out.append(('hole', fmt[i + 1:j]))
            i = j + 1
        elif c == '}':
            if fmt.startswith('}}', i):
                cur += '}'
                i += 2
                continue
            raise Unsupported('stray } in format string')
        else:
            cur += c
            i += 1
    if cur:
        out.append(('lit', cur))
    return out


HOLE_KINDS = {}   # per-unit: hole identifier -> 'str' | 'char' | 'fmt'   (set by extract_unit)


def rule_R1(text, log, writer_names=('writer', 'w', 'f')):
    """write!(w, "fmt", args..)  ->  sequence of calls on the ghost writer.
    Recognised holes: {ident} (by default a &str variable in scope; the unit description may
    declare an identifier as `char` -> vw_char, or `fmt` -> ident.fmt(w), a nested Display
    impl extracted in the same unit); {} with a positional &str expression; {:04X} with a
    positional u32; {:0N} / {ident:0N} of an integer -> vw_dec(x as i128, N).
    A trailing `?` is consumed; without `?` the calls become a block expression."""
    def scan(text):
        out = []
        for m in re.finditer(r'\b(write|writeln)!\(', text):
            i = m.end()
            depth = 1
            j = i
            while j < len(text) and depth:
                c = text[j]
                if c == '"':
                    j += 1
                    while text[j] != '"':
                        j += 2 if text[j] == '\\' else 1
                elif c == "'" and j + 2 < len(text) and (text[j + 2] == "'" or text[j + 1] == '\\'):
                    j = text.index("'", j + 1 + (1 if text[j + 1] == '\\' else 0))
                elif c == '(':
                    depth += 1
                elif c == ')':
                    depth -= 1
                j += 1
            inner = text[i:j - 1]
            m0 = re.fullmatch(r'\s*([A-Za-z_][A-Za-z0-9_]*)\s*', inner)
            if m0 and m.group(1) == 'writeln':      # writeln!(w): a bare newline
                q = text[j] == '?' if j < len(text) else False
                out.append((m.start(), j + (1 if q else 0), m.group(1), m0.group(1), '', '', q))
                continue
            mm = re.match(r'\s*([A-Za-z_][A-Za-z0-9_]*)\s*,\s*"((?:[^"\\\\]|\\\\.)*)"\s*(.*)$', inner, re.S)
            if not mm:
                raise Unsupported('R1: cannot parse %s' % text[m.start():j][:80])
            q = text[j] == '?' if j < len(text) else False
            out.append((m.start(), j + (1 if q else 0), m.group(1), mm.group(1), mm.group(2), mm.group(3), q))
        return out

    def repl(macro, w, fmt, args, q, whole):
        pieces = split_format(fmt)
        args = args.strip()
        pos_args = split_clauses(args[1:]) if args.startswith(',') else []
        calls = []
        for kind, val in pieces:
            if kind == 'lit':
                calls.append('%s.vw_str("%s")' % (w, val))
                continue
            name, _, spec = val.partition(':')
            if name and not re.fullmatch(r'[A-Za-z_][A-Za-z0-9_]*', name):
                raise Unsupported('R1: unsupported hole {%s}' % val)
            if not name:
                if not pos_args:
                    raise Unsupported('R1: hole {%s} without argument' % val)
                arg = pos_args.pop(0)
            else:
                arg = name
            if spec == '':
                hk = HOLE_KINDS.get(name, 'str') if name else HOLE_KINDS.get(arg.strip(), 'str')
                if hk == 'string':        # an owned String expression: borrowed
                    calls.append('%s.vw_str(&%s)' % (w, arg.strip()))
                elif hk == 'udec':        # plain `{}` of an unsigned integer: its decimal digits
                    calls.append('%s.vw_udec(%s as u128)' % (w, arg.strip()))
                elif hk == 'str':
                    calls.append('%s.vw_str(%s)' % (w, arg))
                elif hk == 'char':
                    calls.append('%s.vw_char(%s)' % (w, arg))
                elif hk == 'fmt':
                    calls.append('%s.fmt(%s)' % (arg, w))
                else:
                    raise Unsupported('R1: unknown hole kind %r' % hk)
            elif spec == '04X':
                calls.append('%s.vw_hex4(%s)' % (w, arg))
            elif re.fullmatch(r'0\d+', spec):
                calls.append('%s.vw_dec(%s as i128, %d)' % (w, arg, int(spec)))
            else:
                raise Unsupported('R1: unsupported hole {%s}' % val)
        if pos_args:
            raise Unsupported('R1: unused positional arguments %r' % pos_args)
        if macro == 'writeln':
            calls.append('%s.newline()' % w)
        if not calls:
            calls = ['%s.vw_str("")' % w]
        if q:
            new = '?; '.join(calls) + '?'
        elif len(calls) == 1:
            new = calls[0]
        else:
            new = '{ ' + '?; '.join(calls[:-1]) + '?; ' + calls[-1] + ' }'
        log.append({'rule': 'R1', 'before': whole, 'after': new})
        return new
    out = []
    pos = 0
    for (a, b, macro, w, fmt, args, q) in scan(text):
        out.append(text[pos:a])
        out.append(repl(macro, w, fmt, args, q, text[a:b]))
        pos = b
    out.append(text[pos:])
    return ''.join(out)


def rule_R1f(text, log):
    """format!("{:0N}", x)  ->  vfmt_dec(x as i128, N)  (assumed: the zero-padded decimal String)"""
    pat = re.compile(r'\bformat!\(\s*"\{:0(\d+)\}"\s*,\s*([^()]+?)\)')

    def repl(m):
        new = 'vfmt_dec(%s as i128, %s)' % (m.group(2).strip(), m.group(1))
        log.append({'rule': 'R1f', 'before': m.group(0), 'after': new})
        return new
    return pat.sub(repl, text)


def rule_R3f(text, log):
    """`&mut fmt::Formatter<'_>` / `&mut Formatter<'_>` -> `&mut VWriter` (the ghost writer)"""
    n = len(re.findall(r"&mut (?:fmt::)?Formatter<'_>", text))
    if n:
        text = re.sub(r"&mut (?:fmt::)?Formatter<'_>", '&mut VWriter', text)
        log.append({'rule': 'R3f', 'before': "&mut [fmt::]Formatter<'_>", 'after': '&mut VWriter', 'count': n})
    return text


def rule_R13(text, log):
    """X.split(C).nth(N) -> str_split_nth(X, C, N): `Split` and the provided method `nth` have no
    Verus specification; the wrapper is external_body, its body is the same call"""
    pat = re.compile(r"\b([A-Za-z_][A-Za-z0-9_]*)\.split\(('(?:[^'\\]|\\.)')\)\.nth\(([^()]*)\)")

    def repl(m):
        new = 'str_split_nth(%s, %s, %s)' % (m.group(1), m.group(2), m.group(3))
        log.append({'rule': 'R13', 'before': m.group(0), 'after': new})
        return new
    return pat.sub(repl, text)


def rule_R14(text, log):
    """X.join(S) -> strs_join(&X, S): `[String]::join` is generic over the external trait `Join`;
    the wrapper is external_body, its body is the same call"""
    pat = re.compile(r'\b((?:self\.)?[A-Za-z_][A-Za-z0-9_]*)\.join\(("(?:[^"\\]|\\.)*")\)')

    def repl(m):
        new = 'strs_join(&%s, %s)' % (m.group(1), m.group(2))
        log.append({'rule': 'R14', 'before': m.group(0), 'after': new})
        return new
    return pat.sub(repl, text)


def rule_R8(text, log):
    """X.trim_end_matches(c) -> str_trim_end_char(&X, c): the method is generic over the external
    trait `Pattern`; the wrapper is external_body, its body is the same call"""
    pat = re.compile(r'\b([A-Za-z_][A-Za-z0-9_]*)\.trim_end_matches\(([^()]*)\)')

    def repl(m):
        new = 'str_trim_end_char(&%s, %s)' % (m.group(1), m.group(2))
        log.append({'rule': 'R8', 'before': m.group(0), 'after': new})
        return new
    return pat.sub(repl, text)


def rule_R2(text, log):
    """for (i, b) in E.iter().enumerate() {  ->  for i in 0..E.len() { let b = &E[i];"""
    pat = re.compile(r'for \((\w+), (\w+)\) in ([^{}\n]+?)\.iter\(\)\.enumerate\(\) \{')

    def repl(m):
        i, b, e = m.group(1), m.group(2), m.group(3)
        new = 'for %s in 0..%s.len() { let %s = &%s[%s];' % (i, e, b, e, i)
        log.append({'rule': 'R2', 'before': m.group(0), 'after': new})
        return new
    return pat.sub(repl, text)


def rule_R2b(text, log):
    """for (i, b) in E.bytes().enumerate() {  ->  for i in 0..E.as_bytes().len() { let b = E.as_bytes()[i];"""
    pat = re.compile(r'for \((\w+), (\w+)\) in ([^{}\n]+?)\.bytes\(\)\.enumerate\(\) \{')

    def repl(m):
        i, b, e = m.group(1), m.group(2), m.group(3)
        new = 'for %s in 0..%s.as_bytes().len() { let %s = %s.as_bytes()[%s];' % (i, e, b, e, i)
        log.append({'rule': 'R2b', 'before': m.group(0), 'after': new})
        return new
    return pat.sub(repl, text)


def rule_R7(text, log):
    """X.nth(N) on a `Chars` (a provided trait method: Verus cannot attach a spec to it)
    -> chars_nth(X, N), an external_body wrapper whose body is the same call"""
    pat = re.compile(r'\b(chars\.clone\(\))\.nth\(([^()]*)\)')

    def repl(m):
        new = 'chars_nth(%s, %s)' % (m.group(1), m.group(2))
        log.append({'rule': 'R7', 'before': m.group(0), 'after': new})
        return new
    return pat.sub(repl, text)


def rule_R9(text, log):
    """`static X: T = ..` -> `const X: T = ..` (Verus wants an `exec static` with an ensures clause;
    a const differs from a static only in address identity, which the extracted code never uses)"""
    pat = re.compile(r'(?m)^(\s*)static (\w+):')

    def repl(m):
        log.append({'rule': 'R9', 'before': 'static %s' % m.group(2), 'after': 'const %s' % m.group(2)})
        return '%sconst %s:' % (m.group(1), m.group(2))
    return pat.sub(repl, text)


def rule_R10(text, log):
    """closure parameter `_` -> `_e` (Verus: only variables are supported as closure parameters)"""
    n = len(re.findall(r'\|_\|', text))
    if n:
        text = re.sub(r'\|_\|', '|_e|', text)
        log.append({'rule': 'R10', 'before': '|_|', 'after': '|_e|', 'count': n})
    return text


def rule_R11(text, log):
    """X.parse::<u32>() -> parse_u32(X): `str::parse` is generic over the external trait FromStr;
    the wrapper is external_body, its body is the same call, its contract is assumed"""
    pat = re.compile(r'\b([A-Za-z_][A-Za-z0-9_]*)\.parse::<u32>\(\)')

    def repl(m):
        new = 'parse_u32(%s)' % m.group(1)
        log.append({'rule': 'R11', 'before': m.group(0), 'after': new})
        return new
    return pat.sub(repl, text)


def rule_R12(text, log):
    """X.replace(C, "") -> str_remove_char(X, C): `str::replace` is generic over the external trait
    Pattern; the wrapper is external_body, its body is the same call, its contract is assumed"""
    pat = re.compile(r'\b([A-Za-z_][A-Za-z0-9_]*)\.replace\(([^(),]+), ""\)')

    def repl(m):
        new = 'str_remove_char(%s, %s)' % (m.group(1), m.group(2))
        log.append({'rule': 'R12', 'before': m.group(0), 'after': new})
        return new
    return pat.sub(repl, text)


def rule_R11b(text, log):
    """E.parse() (target type inferred as i64) -> parse_i64(&E) where E is a call expression"""
    pat = re.compile(r'\b(str_remove_char\([^()]*\))\.parse\(\)')

    def repl(m):
        new = 'parse_i64(&%s)' % m.group(1)
        log.append({'rule': 'R11b', 'before': m.group(0), 'after': new})
        return new
    return pat.sub(repl, text)


def rule_R16(text, log):
    """X.contains("lit") -> str_contains(X, "lit");  X.replace("a", "b") -> str_replace(X, "a", "b"):
    both are generic over the external trait Pattern; the wrappers are external_body, their body is
    the same call, their contract (substring search / leftmost non-overlapping replacement) is assumed"""
    lit = r'"(?:[^"\\]|\\.)*"'
    pat1 = re.compile(r'\b([A-Za-z_][A-Za-z0-9_]*)\.contains\((%s)\)' % lit)
    pat2 = re.compile(r'\b([A-Za-z_][A-Za-z0-9_]*)\.replace\((%s), (%s)\)' % (lit, lit))

    def repl1(m):
        new = 'str_contains(%s, %s)' % (m.group(1), m.group(2))
        log.append({'rule': 'R16', 'before': m.group(0), 'after': new})
        return new

    def repl2(m):
        new = 'str_replace(%s, %s, %s)' % (m.group(1), m.group(2), m.group(3))
        log.append({'rule': 'R16', 'before': m.group(0), 'after': new})
        return new
    return pat2.sub(repl2, pat1.sub(repl1, text))


def rule_R11c(text, log):
    """E.parse() (target type inferred as f64) -> parse_f64(&E) where E is a call expression"""
    pat = re.compile(r'\b(str_remove_char\([^()]*\))\.parse\(\)')

    def repl(m):
        new = 'parse_f64(&%s)' % m.group(1)
        log.append({'rule': 'R11c', 'before': m.group(0), 'after': new})
        return new
    return pat.sub(repl, text)


def rule_R3(text, log):
    """generic writer instantiation"""
    pat = re.compile(r'<W: crate::TomlWrite \+ \?Sized>')
    if pat.search(text):
        log.append({'rule': 'R3', 'before': '<W: crate::TomlWrite + ?Sized>', 'after': ''})
        text = pat.sub('', text)
        n = len(re.findall(r'&mut W\b', text))
        text = re.sub(r'&mut W\b', '&mut VWriter', text)
        log.append({'rule': 'R3', 'before': '&mut W', 'after': '&mut VWriter', 'count': n})
    return text


def rule_R4(text, log):
    """cfg resolution for the default feature set (feature `unbounded` off)"""
    def drop_on(m):
        log.append({'rule': 'R4', 'before': m.group(0).strip(), 'after': ''})
        return re.sub(r'[^\n]', '', m.group(0))[:0] + m.group(1)
    text2 = re.sub(r'#\[cfg\(not\(feature = "unbounded"\)\)\]([ \t]*\n?)', drop_on, text)
    if re.search(r'#\[cfg\(feature = "unbounded"\)\]', text2):
        raise Unsupported('R4: item gated on feature "unbounded" inside extracted text')
    return text2


def rule_R4s(text, log):
    """cfg resolution for the verified configuration (features serde, parse, display on):
    `#[cfg(feature = "serde")]` and `#[cfg(any(feature = "serde", feature = "parse"))]`
    attribute lines are removed, the item is kept"""
    pat = re.compile(r'#\[cfg\((?:feature = "(?:serde|parse|display)"|any\((?:feature = "(?:serde|parse|display)"(?:, )?)+\))\)\][ \t]*\n?')

    def repl(m):
        log.append({'rule': 'R4s', 'before': m.group(0).strip(), 'after': ''})
        return ''
    return pat.sub(repl, text)


def rule_R5(text, log):
    """attribute / visibility / path trimming"""
    def drop(m):
        log.append({'rule': 'R5', 'before': m.group(0).strip(), 'after': ''})
        return m.group(1) if m.lastindex else ''
    def derive(m):
        # keep only Copy + Clone (needed when extracted code copies the value); the rest is dropped
        items = [x.strip() for x in m.group(1).split(',')]
        keep = 'Copy' in items and 'Clone' in items
        log.append({'rule': 'R5', 'before': m.group(0).strip(), 'after': '#[derive(Clone, Copy)]' if keep else ''})
        return ('#[derive(Clone, Copy)]' if keep else '') + m.group(2)
    text = re.sub(r'#\[derive\(([^\]]*)\)\]([ \t]*\n?)', derive, text)
    text = re.sub(r'#\[allow\([^\]]*\)\]([ \t]*\n?)', drop, text)
    text = re.sub(r'#\[repr\(u8\)\]([ \t]*\n?)', drop, text)
    text = re.sub(r'#\[cfg_attr\(feature = "unbounded", allow\(dead_code\)\)\]([ \t]*\n?)', drop, text)
    text = re.sub(r'#\[cfg_attr\(kani, [^\n]*\)\]([ \t]*\n?)', drop, text)
    text = re.sub(r'#\[inline(?:\([^\]]*\))?\]([ \t]*\n?)', drop, text)
    n = len(re.findall(r'\bpub(?:\((?:crate|super)\))? ', text))
    if n:
        # single-module file: visibility has no semantic content; Verus refuses contracts of
        # pub fns that mention private fields, so everything is made module-private
        text = re.sub(r'\bpub(?:\((?:crate|super)\))? ', '', text)
        log.append({'rule': 'R5', 'before': 'pub / pub(crate) / pub(super)', 'after': '', 'count': n})
    for p in (r'super::error::', r'crate::parser::error::', r'crate::parser::(?:strings|array|inline_table|trivia|numbers|table)::'):
        n = len(re.findall(p, text))
        if n:
            text = re.sub(p, '', text)
            log.append({'rule': 'R5', 'before': p.replace('\\', ''), 'after': '', 'count': n})
    return text


RULES = {'R16': rule_R16, 'R4s': rule_R4s, 'R11c': rule_R11c, 'R13': rule_R13, 'R14': rule_R14, 'R5c': (lambda text, log: text), 'R12': rule_R12, 'R11b': rule_R11b, 'R9': rule_R9, 'R10': rule_R10, 'R11': rule_R11, 'R1': rule_R1, 'R1f': rule_R1f, 'R3f': rule_R3f, 'R8': rule_R8, 'R2': rule_R2, 'R2b': rule_R2b, 'R7': rule_R7, 'R3': rule_R3, 'R4': rule_R4, 'R5': rule_R5}


def strip_doc_comments(text):
    """doc comments (/// and //!) become empty lines; ordinary comments are kept"""
    return re.sub(r'(?m)^[ \t]*//[/!].*$', '', text)


# --------------------------------------------------------------------------------------
# per-function injection


def find_loops(body_toks_text):
    pass


class FnText:
    """A function's text (already rewritten) plus its absolute source line, ready for
    contract / loop / proof injection."""

    def __init__(self, path, text, src_line):
        self.path = path          # e.g. ValueMetrics::calculate
        self.text = text
        self.src_line = src_line
        self.inserts = []         # (offset, text)

    def _toks(self):
        toks = lex(self.text)
        return toks, significant(toks)

    def inject_contract(self, c):
        toks, sig = self._toks()
        # locate `fn`, then the body `{` at depth 0
        k = 0
        while toks[sig[k]][1] != 'fn':
            k += 1
        depth = 0
        arrow = None
        j = k
        while True:
            t = toks[sig[j]]
            if t[0] == 'punct':
                if t[1] in '([':
                    depth += 1
                elif t[1] in ')]':
                    depth -= 1
                elif t[1] == '{' and depth == 0:
                    break
                elif t[1] == '-' and depth == 0 and toks[sig[j + 1]][1] == '>' and arrow is None:
                    arrow = j
            j += 1
        body_open = toks[sig[j]][2]
        if c['ret']:
            if arrow is None:
                raise LostAnchor('%s: ret= given but function has no return type' % self.path)
            ty_start = toks[sig[arrow + 2]][2]
            ty_end = toks[sig[j - 1]][3]
            self.inserts.append((ty_start, '(%s: ' % c['ret']))
            self.inserts.append((ty_end, ')'))
        self.inserts.append((body_open, '\n' + c['text'].rstrip('\n') + '\n', c['line']))

    def body_open_offset(self):
        toks, sig = self._toks()
        k = 0
        while toks[sig[k]][1] != 'fn':
            k += 1
        depth = 0
        j = k
        while True:
            t = toks[sig[j]]
            if t[0] == 'punct':
                if t[1] in '([':
                    depth += 1
                elif t[1] in ')]':
                    depth -= 1
                elif t[1] == '{' and depth == 0:
                    return t[2]
            j += 1

    def loop_sites(self):
        """[(si_keyword, body_open_offset, in_offset_or_None)] in source order"""
        toks, sig = self._toks()
        out = []
        for k, si in enumerate(sig):
            t = toks[si]
            if t[0] == 'ident' and t[1] in ('while', 'for', 'loop'):
                # `for` in `impl<..> X for Y` cannot occur inside a fn body; HRTB `for<'a>` can
                if t[1] == 'for' and toks[sig[k + 1]][1] == '<':
                    continue
                depth = 0
                j = k + 1
                in_off = None
                while True:
                    tt = toks[sig[j]]
                    if tt[0] == 'punct':
                        if tt[1] in '([':
                            depth += 1
                        elif tt[1] in ')]':
                            depth -= 1
                        elif tt[1] == '{' and depth == 0:
                            break
                    if t[1] == 'for' and tt[1] == 'in' and depth == 0 and in_off is None:
                        in_off = tt[3]
                    j += 1
                out.append((t[1], toks[sig[j]][2], in_off))
        return out

    def inject_loop(self, ordinal, spec):
        sites = self.loop_sites()
        if ordinal >= len(sites):
            raise LostAnchor('%s: loop #%d not found (%d loops)' % (self.path, ordinal, len(sites)))
        kw, body_open, in_off = sites[ordinal]
        if spec['iter']:
            if kw != 'for' or in_off is None:
                raise LostAnchor('%s: loop #%d is not a for loop' % (self.path, ordinal))
            self.inserts.append((in_off, ' %s:' % spec['iter']))
        self.inserts.append((body_open, '\n' + spec['text'].rstrip('\n') + '\n', spec['line']))

    def closure_sites(self):
        """zero-parameter closures `|| body` in source order: (after_bars_offset, body_start,
        body_end, is_block)"""
        toks, sig = self._toks()
        out = []
        for k in range(len(sig) - 1):
            a, b = toks[sig[k]], toks[sig[k + 1]]
            if a[1] == '|' and b[1] == '|' and a[3] == b[2]:
                prev = toks[sig[k - 1]][1] if k else ''
                if prev not in ('(', ',', '=', 'move', 'return', '{', ';'):
                    continue   # binary `||`
                nxt = toks[sig[k + 2]]
                if nxt[1] == '{':
                    cl = match_close(toks, sig[k + 2])
                    out.append((b[3], nxt[2], toks[cl][3], True))
                else:
                    depth = 0
                    j = k + 2
                    while True:
                        t = toks[sig[j]]
                        if t[0] == 'punct':
                            if t[1] in '([{':
                                depth += 1
                            elif t[1] in ')]}':
                                if depth == 0:
                                    break
                                depth -= 1
                            elif t[1] in ',;' and depth == 0:
                                break
                        j += 1
                    out.append((b[3], nxt[2], toks[sig[j - 1]][3], False))
        return out

    def inject_closure(self, ordinal, spec):
        sites = self.closure_sites()
        if ordinal >= len(sites):
            raise LostAnchor('%s: closure #%d not found (%d closures)' % (self.path, ordinal, len(sites)))
        after_bars, bstart, bend, is_block = sites[ordinal]
        head = ' -> (%s: %s)\n%s\n' % (spec['ret'], spec['type'], spec['text'].rstrip('\n'))
        if is_block:
            self.inserts.append((after_bars, head))
        else:
            self.inserts.append((after_bars, head + '{ '))
            self.inserts.append((bend, ' }'))

    def inject_proof(self, p):
        ms = list(re.finditer(p['regex'], self.text))
        if p['nth'] >= len(ms):
            raise LostAnchor('%s: proof anchor /%s/ #%d not found (%d matches)' % (
                self.path, p['regex'], p['nth'], len(ms)))
        m = ms[p['nth']]
        if p['where'] == 'before':
            off = self.text.rfind('\n', 0, m.start()) + 1
        else:
            off = self.text.find('\n', m.end())
            off = len(self.text) if off < 0 else off + 1
        self.inserts.append((off, p['text'] if p['text'].endswith('\n') else p['text'] + '\n', p['line']))

    def render(self):
        """returns list of (text, src_line or None)"""
        chunks = []
        pos = 0
        line = self.src_line
        # stable sort by offset; inserts at same offset keep declaration order
        for ins_t in sorted(self.inserts, key=lambda x: x[0]):
            off, ins = ins_t[0], ins_t[1]
            specline = ins_t[2] if len(ins_t) > 2 else None
            if off > pos:
                seg = self.text[pos:off]
                chunks.append((seg, line))
                line += seg.count('\n')
                pos = off
            chunks.append((ins, ('spec', specline) if specline else None))
        if pos < len(self.text):
            chunks.append((self.text[pos:], line))
        return chunks


# --------------------------------------------------------------------------------------


def extract_unit(spec_path, repo, out_path, meta_path=None, canary=None):
    """Builds the Verus file for one unit.  canary: optional fn path; an `assert(false);`
    is appended at the end of that function's body (vacuity guard)."""
    with open(spec_path, 'rb') as f:
        spec = tomllib.load(f)
    spec_dir = os.path.dirname(os.path.abspath(spec_path))
    contracts = parse_contract_file(os.path.join(spec_dir, spec['contracts']))
    rules = spec.get('rules', [])
    HOLE_KINDS.clear()
    HOLE_KINDS.update(spec.get('hole_kinds', {}))
    used_contract, used_loop, used_proof, used_attr, used_closure = set(), set(), set(), set(), set()
    log = []
    chunks = []     # (text, (file, line) or None)
    functions = []  # metadata

    def rewrite(text):
        text = strip_doc_comments(text)
        for r in rules:
            text = RULES[r](text, log)
        return text

    def emit_fn(src, fnpath, s_start, s_close, relfile, indent_under_impl=False, rename=None):
        a = src.tok(s_start)[2]
        b = src.tok(s_close)[3]
        raw = src.text[a:b]
        line = src.line_of(a)
        nlog = len(log)
        text = rewrite(raw)
        if rename:
            # R6b: two trait impls of one type define a method of the same name (From<A>, From<B>);
            # as inherent methods they need distinct names.  Only the name in the signature changes.
            old_name, new_name = rename
            text, n = re.subn(r'\bfn %s\b' % re.escape(old_name), 'fn ' + new_name, text, count=1)
            if n != 1:
                raise LostAnchor('rename %s -> %s: signature not found' % rename)
            log.append({'rule': 'R6b', 'before': 'fn ' + old_name, 'after': 'fn ' + new_name})
            fnpath = fnpath.rsplit('::', 1)[0] + '::' + new_name
        for e in log[nlog:]:
            e.setdefault('fn', fnpath)
            e.setdefault('file', relfile)
            e.setdefault('line', line)
        ft = FnText(fnpath, text, line)
        if fnpath in contracts['contract']:
            ft.inject_contract(contracts['contract'][fnpath])
            used_contract.add(fnpath)
        for (fn, k), lspec in contracts['loop'].items():
            if fn == fnpath:
                ft.inject_loop(k, lspec)
                used_loop.add((fn, k))
        for idx, p in enumerate(contracts['proof']):
            if p['fn'] == fnpath:
                ft.inject_proof(p)
                used_proof.add(idx)
        for (fn, k), cspec in contracts['closure'].items():
            if fn == fnpath:
                ft.inject_closure(k, cspec)
                used_closure.add((fn, k))
        if canary in ('*', fnpath) and (fnpath in contracts['contract'] or canary == fnpath) \
                and 'external_body' not in contracts['attr'].get(fnpath, ''):   # assumed contract: no body to reach
            # vacuity canary: must FAIL at the start of the body (requires + assumed specs
            # satisfiable) and at the start of every loop body that has a loop spec
            ft.inserts.append((ft.body_open_offset() + 1, '\n    assert(false); // CANARY\n'))
            sites = ft.loop_sites()
            for (fn, k) in contracts['loop']:
                if fn == fnpath and k < len(sites):
                    ft.inserts.append((sites[k][1] + 1, '\n    assert(false); // CANARY\n'))
        if fnpath in contracts['attr']:
            chunks.append((contracts['attr'][fnpath], None))
            used_attr.add(fnpath)
        for t, l in ft.render():
            if isinstance(l, tuple):
                chunks.append((t, ('@spec', l[1])))
            else:
                chunks.append((t, (relfile, l) if l else None))
        chunks.append(('\n', None))
        functions.append({
            'fn': fnpath, 'file': relfile, 'line_start': line,
            'line_end': src.line_of(b), 'sha256': hashlib.sha256(raw.encode()).hexdigest(),
            'has_contract': fnpath in contracts['contract'],
            'loops': len(ft.loop_sites()),
        })

    sources = {}

    def get_source(rel):
        if rel not in sources:
            sources[rel] = Source(os.path.join(repo, rel))
        return sources[rel]

    def auto_consts(src, rel, raw, fn_open, fn_close):
        """const / static tables referenced by a slice or closure body but declared outside it (inside
        the enclosing function or at the top of the file) are extracted verbatim in front of it"""
        emitted = ''.join(t for t, _ in chunks)
        for name in sorted(set(re.findall(r'\b[A-Z][A-Z0-9_]{2,}\b', raw))):
            if re.search(r'\b(const|static)\s+%s\b' % name, emitted) or re.search(r'\b(const|static)\s+%s\b' % name, raw):
                continue
            hit = None
            for kw in ('static', 'const'):
                for si in src.find_seq([kw, name]):
                    if src.tok(si + 2)[1] != ':':
                        continue
                    inside = fn_open is not None and fn_open <= si <= fn_close
                    if inside or src.depth[si] == 0:
                        hit = (kw, si)
                        break
                if hit:
                    break
            if not hit:
                continue
            kw, si = hit
            start = src.item_start(si)
            k = si
            depth = 0
            while True:
                t = src.tok(k)
                if t[0] == 'punct':
                    if t[1] in '([{':
                        depth += 1
                    elif t[1] in ')]}':
                        depth -= 1
                    elif t[1] == ';' and depth == 0:
                        break
                k += 1
            a, b = src.tok(start)[2], src.tok(k)[3]
            text = src.text[a:b]
            nlog = len(log)
            out = rewrite(text)
            out = re.sub(r'^(\s*)static ', r'\1const ', out)     # R9 applied unconditionally here
            for e in log[nlog:]:
                e.setdefault('file', rel)
                e.setdefault('line', src.line_of(a))
            log.append({'rule': 'auto-const', 'before': '%s %s (referenced, declared outside the slice)' % (kw, name),
                        'after': 'extracted verbatim', 'file': rel, 'line': src.line_of(a)})
            chunks.append((out + '\n\n', (rel, src.line_of(a))))

    for item in spec['item']:
        rel = item.get('source', spec.get('source'))
        src = get_source(rel)
        kind = item['kind']
        lo, hi = 0, None
        if 'within_mod' in item:
            _, _, mop, mcl = locate(src, 'mod', item['within_mod'])
            lo, hi = mop, mcl
        if 'within_fn' in item and kind == 'static':
            _, _, fo, fc = locate(src, 'fn', item['within_fn'], lo, hi)
            lo, hi = fo, fc
        if kind in ('struct', 'enum', 'const', 'static'):
            s_start, _, _, s_close = locate(src, kind, item['name'], lo, hi)
            a = src.tok(s_start)[2]
            b = src.tok(s_close)[3]
            raw = src.text[a:b]
            nlog = len(log)
            text = rewrite(raw)
            for e in log[nlog:]:
                e.setdefault('file', rel)
                e.setdefault('line', src.line_of(a))
            if item.get('pub_fields'):
                pass
            chunks.append((item.get('prefix', '') + text + '\n\n', (rel, src.line_of(a))))
        elif kind == 'fn':
            s_start, _, _, s_close = locate(src, 'fn', item['name'], lo, hi)
            emit_fn(src, item['name'], s_start, s_close, rel)
        elif kind == 'impl':
            ty = item['name']
            i_start, i_kw, i_open, i_close = locate_impl(src, ty, item.get('trait'))
            hdr = src.text[src.tok(i_kw)[2]:src.tok(i_open)[3]]
            if item.get('as_inherent'):
                # R6: methods of a trait impl are extracted as inherent methods (trait dispatch dropped)
                after_for = hdr.split(' for ', 1)[1] if ' for ' in hdr else ty + ' {'
                new_hdr = 'impl ' + after_for.strip()
                log.append({'rule': 'R6', 'before': hdr.strip(), 'after': new_hdr, 'file': rel,
                            'line': src.line_of(src.tok(i_kw)[2])})
                hdr = new_hdr
            chunks.append((rewrite(hdr) + '\n', (rel, src.line_of(src.tok(i_kw)[2]))))
            for mname in item['methods']:
                s_start, _, _, s_close = locate(src, 'fn', mname, i_open, i_close)
                rn = item.get('rename', {}).get(mname)
                emit_fn(src, '%s::%s' % (ty, mname), s_start, s_close, rel, rename=(mname, rn) if rn else None)
            chunks.append(('}\n\n', None))
        elif kind == 'closure_arg':
            # the closure passed as the argument of a call located by a regex inside a function,
            # wrapped in a synthetic signature whose parameter names are the closure's
            if 'within_impl' in item:
                _, _, iop, icl = locate_impl(src, item['within_impl'], item.get('within_trait'))
                lo, hi = iop, icl
            fs, _, fo, fc = locate(src, 'fn', item['within_fn'], lo, hi)
            lo_off, hi_off = src.tok(fo)[3], src.tok(fc)[2]
            ms = list(re.compile(item['call']).finditer(src.text, lo_off, hi_off))
            if len(ms) != 1:
                raise LostAnchor('closure_arg %s: call /%s/ matches %d times in fn %s' % (
                    item['name'], item['call'], len(ms), item['within_fn']))
            i = ms[0].end()
            depth = 1
            j = i
            t = src.text
            while depth:
                c = t[j]
                if c == '(':
                    depth += 1
                elif c == ')':
                    depth -= 1
                elif c == '"':
                    j += 1
                    while t[j] != '"':
                        j += 2 if t[j] == '\\' else 1
                elif c == "'" and t[j + 2] == "'":
                    j += 2
                j += 1
            closure = t[i:j - 1].strip()
            m = re.match(r'\|([^|]*)\|\s*(.*)$', closure, re.S)
            if not m:
                raise LostAnchor('closure_arg %s: argument is not a closure: %r' % (item['name'], closure[:60]))
            params = [re.sub(r':.*$', '', x).strip() for x in m.group(1).split(',') if x.strip()]
            if params != item['params']:
                raise LostAnchor('closure_arg %s: closure parameters %r differ from %r' % (item['name'], params, item['params']))
            raw = m.group(2).strip()
            line = src.line_of(i)
            auto_consts(src, rel, raw, fo, fc)
            nlog = len(log)
            body = rewrite(raw)
            for e in log[nlog:]:
                e.setdefault('fn', item['name'])
                e.setdefault('file', rel)
                e.setdefault('line', line)
            sig_text = item['signature'].rstrip()
            full = sig_text + ' {\n    ' + body + '\n}'
            ft = FnText(item['name'], full, line - 1)
            if item['name'] in contracts['contract']:
                ft.inject_contract(contracts['contract'][item['name']])
                used_contract.add(item['name'])
            for idx, pr in enumerate(contracts['proof']):
                if pr['fn'] == item['name']:
                    ft.inject_proof(pr)
                    used_proof.add(idx)
            if canary in ('*', item['name']):
                ft.inserts.append((len(sig_text) + 3, '    assert(false); // CANARY\n'))
            for tt, l in ft.render():
                if isinstance(l, tuple):
                    chunks.append((tt, ('@spec', l[1])))
                else:
                    chunks.append((tt, (rel, l) if l else None))
            chunks.append(('\n\n', None))
            functions.append({
                'fn': item['name'], 'file': rel, 'line_start': line, 'line_end': src.line_of(j),
                'sha256': hashlib.sha256(raw.encode()).hexdigest(), 'has_contract': True,
                'loops': 0, 'slice': True, 'synthetic_signature': sig_text, 'closure_of': item['call'],
            })
        elif kind == 'slice':
            # statement slice between two anchor regexes (inclusive of the lines they match),
            # wrapped in a synthetic signature given in the unit description
            text = src.text
            scope_lo, scope_hi = 0, len(text)
            if 'within_fn' in item:
                if 'within_impl' in item:
                    _, _, iop, icl = locate_impl(src, item['within_impl'], item.get('within_trait'))
                    lo, hi = iop, icl
                fs, _, fo, fc = locate(src, 'fn', item['within_fn'], lo, hi)
                scope_lo, scope_hi = src.tok(fo)[3], src.tok(fc)[2]
            m1 = re.compile(item['from']).search(text, scope_lo, scope_hi)
            if not m1:
                raise LostAnchor('slice %s: start anchor /%s/ not found' % (item['name'], item['from']))
            m2 = re.compile(item['to']).search(text, m1.end(), scope_hi)
            if not m2:
                raise LostAnchor('slice %s: end anchor /%s/ not found' % (item['name'], item['to']))
            a = text.rfind('\n', 0, m1.start()) + 1
            b = m2.end()
            raw = text[a:b]
            line = src.line_of(a)
            auto_consts(src, rel, raw, fo if 'within_fn' in item else None, fc if 'within_fn' in item else None)
            body = rewrite(raw)
            sig_text = item['signature'].rstrip()
            # the contract for the synthetic fn is injected the normal way
            full = sig_text + ' {\n' + body + '\n' + item.get('epilogue', '') + '\n}'
            ft = FnText(item['name'], full, line - 1)
            if item['name'] in contracts['contract']:
                ft.inject_contract(contracts['contract'][item['name']])
                used_contract.add(item['name'])
            for idx, p in enumerate(contracts['proof']):
                if p['fn'] == item['name']:
                    ft.inject_proof(p)
                    used_proof.add(idx)
            if canary in ('*', item['name']):
                ft.inserts.append((len(sig_text) + 3, '    assert(false); // CANARY\n'))
            for t, l in ft.render():
                if isinstance(l, tuple):
                    chunks.append((t, ('@spec', l[1])))
                else:
                    chunks.append((t, (rel, l) if l else None))
            chunks.append(('\n\n', None))
            functions.append({
                'fn': item['name'], 'file': rel, 'line_start': line, 'line_end': src.line_of(b),
                'sha256': hashlib.sha256(raw.encode()).hexdigest(), 'has_contract': True,
                'loops': 0, 'slice': True, 'synthetic_signature': sig_text,
            })
        elif kind == 'uses':
            # modular verification: a caller is covered by a callee's contract only if it calls that
            # callee.  `uses` pins a call site: inside fn `within_fn` the text must match `pattern`
            # (the call of the function under contract); otherwise the caller may be using something
            # without a contract -> lost anchor (exit 2), never a verdict
            fs, _, fo, fc = locate(src, 'fn', item['within_fn'], lo, hi)
            body = src.text[src.tok(fo)[3]:src.tok(fc)[2]]
            body = re.sub(r'//[^\n]*', '', body)
            n = len(re.findall(item['pattern'], body))
            if n != item.get('count', 1):
                raise LostAnchor('uses %s: fn %s in %s matches /%s/ %d time(s), expected %d -- %s' % (
                    item['name'], item['within_fn'], rel, item['pattern'], n, item.get('count', 1),
                    item.get('what', 'the call site no longer goes through the function under contract')))
            log.append({'rule': 'USES', 'before': '%s in fn %s' % (item['pattern'], item['within_fn']), 'after': 'call site pinned',
                        'file': rel, 'line': src.line_of(src.tok(fo)[3])})
        elif kind == 'dispatch_table':
            # R15: the arms of a winnow `dispatch! {FIRST; PAT => PARSER, ..}` inside a function,
            # as a pure table: an arm `PAT => empty.value(V)` (succeed with V, consume nothing)
            # becomes `PAT => Some(V)`, every other arm `PAT => None`; the match is wrapped in the
            # synthetic signature of the unit description.  Dropped: the combinators of the other
            # arms, error contexts, and the stream (the table is a function of the dispatch byte).
            fs, _, fo, fc = locate(src, 'fn', item['within_fn'], lo, hi)
            lo_off, hi_off = src.tok(fo)[3], src.tok(fc)[2]
            t = src.text
            ms = list(re.finditer(r'dispatch!\s*\{\s*([A-Za-z_][A-Za-z0-9_():]*)\s*;', t[lo_off:hi_off]))
            if len(ms) != 1:
                raise LostAnchor('dispatch_table %s: %d dispatch! blocks in fn %s' % (item['name'], len(ms), item['within_fn']))
            if ms[0].group(1) != item.get('first', 'any'):
                raise LostAnchor('dispatch_table %s: dispatches on %s, not on %s' % (item['name'], ms[0].group(1), item.get('first', 'any')))
            i = lo_off + ms[0].end()
            # comments inside the macro body are blanked (same length) so that quotes and brackets
            # in them cannot confuse the arm splitter
            t = t[:i] + re.sub(r'//[^\n]*', lambda mm: ' ' * len(mm.group(0)), t[i:hi_off]) + t[hi_off:]
            # split the arms at top-level commas up to the closing brace of dispatch!
            arms, depth, cur, j = [], 0, '', i
            while True:
                c = t[j]
                if c in '"':
                    k = j + 1
                    while t[k] != '"':
                        k += 2 if t[k] == '\\' else 1
                    cur += t[j:k + 1]
                    j = k + 1
                    continue
                if c == "'":
                    mm = re.match(r"'(?:\\u\{[0-9a-fA-F]+\}|\\.|[^'\\])'", t[j:])
                    if mm:
                        cur += mm.group(0)
                        j += mm.end()
                        continue
                if c in '({[':
                    depth += 1
                elif c in ')}]':
                    if depth == 0:
                        break
                    depth -= 1
                    if depth == 0 and c == '}' and '=>' in cur:
                        cur += c
                        arms.append(cur)
                        cur = ''
                        j += 1
                        continue
                if c == ',' and depth == 0:
                    arms.append(cur)
                    cur = ''
                else:
                    cur += c
                j += 1
            if cur.strip():
                arms.append(cur)
            line = src.line_of(i)
            out_arms = []
            for arm in arms:
                if not arm.strip():
                    continue
                if '=>' not in arm:
                    raise Unsupported('dispatch_table %s: cannot parse arm %r' % (item['name'], arm.strip()[:60]))
                pat, rhs = arm.split('=>', 1)
                if 'arm_classes' in item:
                    # unit-declared abstraction of an arm: the first regex that matches the arm's
                    # parser expression (whitespace-normalised) gives its class; an arm no regex
                    # matches is an unsupported construct (exit 2), never a silent default
                    flat = ' '.join(rhs.split())
                    new_rhs = None
                    for rx, rep_ in item['arm_classes']:
                        mm = re.search(rx, flat)
                        if mm:
                            new_rhs = mm.expand(rep_)
                            break
                    if new_rhs is None:
                        raise Unsupported('dispatch_table %s: arm not classified: %s' % (item['name'], flat[:100]))
                else:
                    mv = re.fullmatch(r"\s*empty\.value\((.+)\)\s*", rhs, re.S)
                    new_rhs = 'Some(%s)' % mv.group(1).strip() if mv else 'None'
                pat = rewrite(pat)
                out_arms.append('        %s => %s,' % (pat.strip(), new_rhs))
                log.append({'rule': 'R15', 'before': ' '.join(arm.split())[:160], 'after': '%s => %s' % (pat.strip(), new_rhs),
                            'fn': item['name'], 'file': rel, 'line': line})
            raw = t[i:j]
            sig_text = item['signature'].rstrip()
            full = sig_text + ' {\n    match ' + item['scrutinee'] + ' {\n' + '\n'.join(out_arms) + '\n    }\n}'
            ft = FnText(item['name'], full, line - 1)
            if item['name'] in contracts['contract']:
                ft.inject_contract(contracts['contract'][item['name']])
                used_contract.add(item['name'])
            if canary in ('*', item['name']):
                ft.inserts.append((len(sig_text) + 3, '    assert(false); // CANARY\n'))
            for tt, l in ft.render():
                if isinstance(l, tuple):
                    chunks.append((tt, ('@spec', l[1])))
                else:
                    chunks.append((tt, (rel, l) if l else None))
            chunks.append(('\n\n', None))
            functions.append({
                'fn': item['name'], 'file': rel, 'line_start': line, 'line_end': src.line_of(j),
                'sha256': hashlib.sha256(raw.encode()).hexdigest(), 'has_contract': True,
                'loops': 0, 'slice': True, 'synthetic_signature': sig_text, 'dispatch_table': True,
            })
        else:
            raise Unsupported('unknown item kind %r' % kind)

    # every section of the contract file must have been used
    for fn in contracts['contract']:
        if fn not in used_contract:
            raise LostAnchor('contract for %s: function not in unit' % fn)
    for key in contracts['loop']:
        if key not in used_loop:
            raise LostAnchor('loop spec %s #%d: function not in unit' % key)
    for idx, p in enumerate(contracts['proof']):
        if idx not in used_proof:
            raise LostAnchor('proof block for %s: function not in unit' % p['fn'])
    for key in contracts['closure']:
        if key not in used_closure:
            raise LostAnchor('closure spec %s #%d: function not in unit' % key)

    head = '// GENERATED by tools/extract.py from %s -- do not edit\n' % spec_path
    head += contracts['header']
    head += 'verus! {\n'
    shared = ''
    for pf in spec.get('prelude_files', []):
        with open(os.path.join(spec_dir, pf)) as fh:
            shared += fh.read() + '\n'
    pre = [(head, None), (shared, None), (contracts['prelude'], None)]
    post = [(contracts['postlude'], None), ('\n} // verus!\n', None),
            (contracts['main'] if contracts['main'].strip() else 'fn main() {}\n', None)]
    allchunks = pre + chunks + post
    out_text = ''.join(t for t, _ in allchunks)
    out_text = out_text.replace('@VERIF@', os.path.dirname(os.path.dirname(os.path.abspath(__file__))))
    # line table: generated line -> (file, line)
    line_table = {}
    spec_table = {}
    gl = 1
    for t, origin in allchunks:
        if origin:
            f, l = origin
            parts = t.split('\n')
            # an inserted section starts with '\n' (contracts/loops): its text begins one line later
            shift = -1 if (f == '@spec' and t.startswith('\n')) else 0
            for k, part in enumerate(parts):
                if not part.strip():
                    continue
                if f == '@spec':
                    spec_table.setdefault(gl + k, l + k + shift + 1)
                elif (gl + k) not in line_table:
                    line_table[gl + k] = (f, l + k)
        gl += t.count('\n')
    with open(out_path, 'w') as f:
        f.write(out_text)
    meta = {
        'unit': spec['name'], 'spec': spec_path, 'generated': out_path,
        'functions': functions, 'rewrites': log,
        'line_table': {str(k): v for k, v in line_table.items()},
        'spec_table': {str(k): v for k, v in spec_table.items()},
        'contract_file': spec['contracts'],
        'trusted_scan': trusted_scan(out_text),
        'obligation_count': count_obligations(out_text, contracts, functions),
    }
    if meta_path:
        with open(meta_path, 'w') as f:
            json.dump(meta, f, indent=1)
    return meta


TRUST_PATTERNS = [r'\bassume\s*\(', r'\badmit\s*\(', r'external_body', r'assume_specification',
                  r'#\[verifier::external', r'#\[verifier::exec_allows_no_decreases_clause',
                  r'\bexternal_fn_specification', r'#\[verifier::truncate\]']


def trusted_scan(text):
    out = []
    lines = text.split('\n')
    for n, line in enumerate(lines, 1):
        code = line.split('//')[0]
        for p in TRUST_PATTERNS:
            if re.search(p, code):
                # find the next fn name for context
                ctx = ''
                for k in range(n - 1, min(n + 6, len(lines))):
                    m = re.search(r'\bfn\s+(\w+)', lines[k])
                    if m:
                        ctx = m.group(1)
                        break
                out.append({'line': n, 'pattern': p, 'text': line.strip(), 'item': ctx})
    return out


def split_clauses(text):
    """top-level comma separated clauses of a requires/ensures/invariant block"""
    out = []
    depth = 0
    cur = ''
    for ch in text:
        if ch in '([{':
            depth += 1
        elif ch in ')]}':
            depth -= 1
        if ch == ',' and depth == 0:
            if cur.strip():
                out.append(cur.strip())
            cur = ''
        else:
            cur += ch
    if cur.strip():
        out.append(cur.strip())
    return out


def clauses_of(section_text):
    """{'requires': [...], 'ensures': [...], 'invariant': [...], 'decreases': [...]}"""
    # strip comments
    t = re.sub(r'//[^\n]*', '', section_text)
    kws = ['requires', 'ensures', 'invariant_except_break', 'invariant', 'decreases', 'returns']
    pos = [(m.start(), m.group(1)) for m in re.finditer(r'\b(%s)\b' % '|'.join(kws), t)]
    # only keywords at depth 0
    res = {}
    filtered = []
    for p, k in pos:
        pre = t[:p]
        depth = sum(pre.count(c) for c in '([{') - sum(pre.count(c) for c in ')]}')
        if depth == 0:
            filtered.append((p, k))
    for i, (p, k) in enumerate(filtered):
        end = filtered[i + 1][0] if i + 1 < len(filtered) else len(t)
        res.setdefault(k, []).extend(split_clauses(t[p + len(k):end]))
    return res


SAFETY_PATTERNS = [
    ('arith', r'(?<![=!<>+\-*/&|^])(\+=|-=|\*=|(?<=[\w)\]] )[+\-*/](?= [\w(]))'),
    ('index', r'[\w)\]]\[[^\]\n]+\]'),
    ('unwrap', r'\.unwrap\(\)|\.expect\('),
    ('cast', r'\bas (u8|u16|u32|u64|usize|i8|i16|i32|i64|isize)\b'),
]


def count_obligations(out_text, contracts, functions):
    """Names one obligation per injected clause and per safety site in extracted bodies."""
    obs = []
    for fn, c in contracts['contract'].items():
        cl = clauses_of(c['text'])
        for k in ('ensures', 'returns'):
            for i, e in enumerate(cl.get(k, [])):
                obs.append({'name': '%s/%s#%d' % (fn, k, i), 'text': e[:160]})
        # each requires becomes an obligation at every call site; counted at call sites below
    for (fn, k), l in contracts['loop'].items():
        cl = clauses_of(l['text'])
        for kind in ('invariant', 'invariant_except_break', 'decreases', 'ensures'):
            for i, e in enumerate(cl.get(kind, [])):
                obs.append({'name': '%s/loop%d/%s#%d' % (fn, k, kind, i), 'text': e[:160]})
    for (fn, k), c in contracts['closure'].items():
        cl = clauses_of(c['text'])
        for kind in ('ensures',):
            for i, e in enumerate(cl.get(kind, [])):
                obs.append({'name': '%s/closure%d/%s#%d' % (fn, k, kind, i), 'text': e[:160]})
    for p in contracts['proof']:
        for i, m in enumerate(re.finditer(r'\bassert\b', p['text'])):
            obs.append({'name': '%s/proof@%d/assert#%d' % (p['fn'], p['line'], i), 'text': ''})
    # lemmas in prelude/postlude
    for sec in ('prelude', 'postlude'):
        for m in re.finditer(r'\bproof fn\s+(\w+)', contracts[sec]):
            obs.append({'name': 'lemma/%s' % m.group(1), 'text': ''})
    return obs


def safety_sites(src_text, fnpath, file, line0):
    out = []
    for n, line in enumerate(src_text.split('\n')):
        code = line.split('//')[0]
        for kind, pat in SAFETY_PATTERNS:
            for m in re.finditer(pat, code):
                out.append({'name': '%s/%s@L%d' % (fnpath, kind, line0 + n),
                            'text': code.strip()[:120]})
    return out


if __name__ == '__main__':
    import argparse
    ap = argparse.ArgumentParser()
    ap.add_argument('spec')
    ap.add_argument('--repo', default='/repo')
    ap.add_argument('--out', required=True)
    ap.add_argument('--meta')
    ap.add_argument('--canary')
    a = ap.parse_args()
    try:
        m = extract_unit(a.spec, a.repo, a.out, a.meta, a.canary)
    except (LostAnchor, Unsupported, LexError) as e:
        print('EXTRACT-ERROR %s: %s' % (type(e).__name__, e))
        sys.exit(2)
    print('extracted %d functions, %d rewrites -> %s' % (len(m['functions']), len(m['rewrites']), a.out))
