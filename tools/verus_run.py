#!/usr/bin/env python3
"""Engine V, steps 4-7: run Verus on an extracted unit, parse results into named
obligations, vacuity canary, fidelity check, witness search.  See DESIGN.md 2.1."""
import json
import os
import re
import subprocess
import sys
import time

HERE = os.path.dirname(os.path.abspath(__file__))
VERIF = os.path.dirname(HERE)
sys.path.insert(0, HERE)
import extract  # noqa: E402

import threading

EXTRACT_LOCK = threading.Lock()   # extract.py keeps per-unit rule state in module globals
RLIMIT = 100
VERUS_TIMEOUT = 900

UNDECIDED_MSGS = ('Resource limit (rlimit) exceeded', 'rlimit', 'timed out')
KIND_BY_MSG = [
    ('postcondition not satisfied', 'ensures'),
    ('precondition not satisfied', 'requires'),
    ('possible arithmetic underflow/overflow', 'overflow'),
    ('possible division by zero', 'div0'),
    ('assertion failed', 'assert'),
    ('invariant not satisfied', 'invariant'),
    ('loop invariant not satisfied', 'invariant'),
    ('decreases not satisfied', 'decreases'),
    ('loop ensures', 'loop-ensures'),
    ('recommendation not met', None),
]


def sh(cmd, timeout, cwd=None, env=None):
    """run in its own process group with a hard wall-clock limit"""
    t0 = time.time()
    p = subprocess.Popen(cmd, stdout=subprocess.PIPE, stderr=subprocess.PIPE, cwd=cwd, env=env,
                         start_new_session=True, text=True)
    try:
        out, err = p.communicate(timeout=timeout)
        return p.returncode, out, err, time.time() - t0, False
    except subprocess.TimeoutExpired:
        import signal
        try:
            os.killpg(p.pid, signal.SIGKILL)
        except ProcessLookupError:
            pass
        out, err = p.communicate()
        return -9, out, err, time.time() - t0, True


def fn_of_line(meta, gl):
    for f in meta['functions']:
        if f.get('gen_start') and f['gen_start'] <= gl <= f['gen_end']:
            return f['fn']
    return None


def lemma_of_line(gen_text_lines, gl):
    """name of the enclosing `proof fn` / `spec fn` in the spec text (prelude/postlude)"""
    for k in range(min(gl, len(gen_text_lines)) - 1, -1, -1):
        m = re.search(r'\b(?:proof|spec|exec)?\s*fn\s+(\w+)', gen_text_lines[k])
        if m:
            return m.group(1)
    return '?'


def parse_diagnostics(stderr_text):
    out = []
    for line in stderr_text.splitlines():
        line = line.strip()
        if not line.startswith('{'):
            continue
        try:
            d = json.loads(line)
        except ValueError:
            continue
        if d.get('$message_type') != 'diagnostic':
            continue
        out.append(d)
    return out


def run_verus(gen_path, extra=()):
    cmd = ['verus', gen_path, '--multiple-errors', '100', '--rlimit', str(RLIMIT), '--output-json', '--time',
           *extra, '--', '--error-format=json']
    rc, out, err, wall, timed_out = sh(cmd, VERUS_TIMEOUT, cwd=os.path.dirname(gen_path))
    js = None
    try:
        js = json.loads(out)
    except ValueError:
        pass
    return {'rc': rc, 'json': js, 'diags': parse_diagnostics(err), 'stderr': err, 'wall': wall,
            'timed_out': timed_out, 'cmd': ' '.join(cmd)}


def classify(diags, meta, gen_lines, unit):
    """-> (failures, undecided, compile_errors)"""
    failures, undecided, compile_errors = [], [], []
    for d in diags:
        if d.get('level') != 'error':
            continue
        msg = d.get('message', '')
        if msg.startswith('aborting due to') or msg.startswith('For more information'):
            continue
        prim = None
        for s in d.get('spans', []):
            if s.get('is_primary'):
                prim = s
                break
        gl = prim['line_start'] if prim else 0
        text = (prim['text'][0]['text'].strip() if prim and prim.get('text') else '')[:200]
        fn = fn_of_line(meta, gl)
        if not fn:
            nm = lemma_of_line(gen_lines, gl)
            fn = nm if any(f['fn'] == nm for f in meta['functions']) else 'lemma:' + nm
        src = meta['line_table'].get(str(gl))
        if any(u in msg for u in UNDECIDED_MSGS):
            undecided.append({'fn': fn, 'message': msg, 'gen_line': gl})
            continue
        kind = None
        known = False
        for pat, k in KIND_BY_MSG:
            if pat in msg:
                kind, known = k, True
                break
        if not known:
            compile_errors.append({'message': msg, 'gen_line': gl, 'text': text,
                                   'rendered': d.get('rendered', '')[:1500]})
            continue
        if kind is None:
            continue
        # the failing clause for postconditions is the primary span; the program point is secondary
        at = None
        for s in d.get('spans', []):
            if not s.get('is_primary'):
                at = s['line_start']
        where = src if src else (meta['line_table'].get(str(at)) if at else None)
        sl = meta.get('spec_table', {}).get(str(gl))
        if where:
            at_s = 'L%d' % where[1]
        elif sl:
            at_s = '%s:%d' % (meta.get('contract_file', 'spec'), sl)
        else:
            at_s = 'gen%d' % gl
        name = '%s/%s/%s@%s' % (unit, fn, kind, at_s)
        failures.append({'obligation': name, 'fn': fn, 'kind': kind, 'message': msg, 'gen_line': gl,
                         'clause': text, 'src': where,
                         'rendered': d.get('rendered', '')[:2000]})
    return failures, undecided, compile_errors


def annotate_gen_ranges(meta, gen_text):
    """record generated line ranges of every extracted function (by searching `fn name`)"""
    lines = gen_text.split('\n')
    # build reverse table: src (file,line) -> gen line
    rev = {}
    for g, (f, l) in ((int(k), v) for k, v in meta['line_table'].items()):
        rev.setdefault((f, l), g)
    for fn in meta['functions']:
        gs = [g for (f, l), g in rev.items() if f == fn['file'] and fn['line_start'] <= l <= fn['line_end']]
        if gs:
            fn['gen_start'], fn['gen_end'] = min(gs), max(gs)
            # extend to include injected contract lines directly after the signature etc.
    # injected lines sit between mapped lines, so the min..max range covers them
    return lines


def run_unit(unit, repo='/repo', outdir=None, fidelity=True, canary=True, log=print):
    """returns a result dict; never raises for verification outcomes"""
    outdir = outdir or os.path.join(VERIF, 'out', 'verus', unit)
    os.makedirs(outdir, exist_ok=True)
    spec = os.path.join(VERIF, 'specs', unit + '.toml')
    gen = os.path.join(outdir, unit + '.rs')
    res = {'unit': unit, 'engine': 'verus/z3', 'status': 'undecided', 'failures': [], 'undecided': [],
           'notes': [], 'wall_s': 0.0, 'solver_s': 0.0}
    t0 = time.time()
    try:
        with EXTRACT_LOCK:
            meta = extract.extract_unit(spec, repo, gen, os.path.join(outdir, unit + '.meta.json'))
    except (extract.LostAnchor, extract.Unsupported, extract.LexError) as e:
        res['notes'].append('extract: %s: %s' % (type(e).__name__, e))
        res['reason'] = 'lost anchor / unsupported construct'
        res['wall_s'] = time.time() - t0
        return res
    gen_text = open(gen).read()
    gen_lines = annotate_gen_ranges(meta, gen_text)
    res['functions'] = [{k: f[k] for k in ('fn', 'file', 'line_start', 'line_end', 'sha256', 'has_contract')}
                        for f in meta['functions']]
    res['rewrites'] = meta['rewrites']
    res['trusted_scan'] = meta['trusted_scan']
    res['generated'] = gen

    r = run_verus(gen)
    res['checker_cmd'] = r['cmd']
    res['verus_wall_s'] = r['wall']
    if r['timed_out']:
        res['reason'] = 'verus timed out'
        res['wall_s'] = time.time() - t0
        return res
    js = r['json']
    failures, undecided, compile_errors = classify(r['diags'], meta, gen_lines, unit)
    if js is None or compile_errors or (js and js['verification-results'].get('encountered-vir-error')):
        res['reason'] = 'verus rejected the generated file (unsupported construct?)'
        res['notes'] += [c['message'] + ' :: ' + c['text'] for c in compile_errors[:10]]
        if js is None and not compile_errors:
            res['notes'].append(r['stderr'][-2000:])
        res['wall_s'] = time.time() - t0
        return res
    vr = js['verification-results']
    res['verus_verified'] = vr['verified']
    res['verus_errors'] = vr['errors']
    breakdown = []
    for m in js['times-ms']['smt']['smt-run-module-times']:
        breakdown += m.get('function-breakdown', [])
    res['solver_s'] = js['times-ms']['smt']['total'] / 1000.0
    res['per_function'] = [{'fn': b['function'], 'ms': b['time'], 'rlimit': b['rlimit'], 'ok': b['success']}
                           for b in breakdown]
    failed_fns = set(f['fn'] for f in failures) | set(u['fn'] for u in undecided)

    # obligations: injected clauses + lemmas + safety sites of every extracted function
    obligations = list(meta['obligation_count'])
    for f in meta['functions']:
        src_path = os.path.join(repo, f['file'])
        with open(src_path) as fh:
            lines = fh.read().split('\n')[f['line_start'] - 1:f['line_end']]
        obligations += extract.safety_sites('\n'.join(lines), f['fn'], f['file'], f['line_start'])
        obligations.append({'name': '%s/terminates' % f['fn'], 'text': ''})
    for o in obligations:
        fn = o['name'].split('/')[0]
        if fn == 'lemma':
            fn = 'lemma:' + o['name'].split('/')[1]
        o['discharged'] = fn not in failed_fns
    res['obligations'] = obligations
    res['failures'] = failures
    res['undecided'] = undecided

    if failures:
        res['status'] = 'fail'
    elif undecided or not vr['success']:
        res['status'] = 'undecided'
        res['reason'] = 'rlimit / solver gave up: ' + '; '.join(u['fn'] for u in undecided)
    else:
        res['status'] = 'pass'

    # vacuity canary: assert(false) at the start of every contracted function and loop body must fail
    if canary and res['status'] == 'pass':
        cres = run_canary(unit, repo, outdir, meta)
        res['canary'] = cres
        if cres['vacuous']:
            res['status'] = 'undecided'
            res['reason'] = 'vacuity canary verified in: ' + ', '.join(cres['vacuous'])
    # fidelity: the extracted text compiled by verus behaves like the real crate on the battery
    if fidelity and res['status'] == 'pass':
        fres = run_fidelity(unit, gen, outdir, log)
        res['fidelity'] = fres
        if fres and not fres.get('match', True):
            res['status'] = 'undecided'
            res['reason'] = 'fidelity mismatch between extracted text and the real crate'
    res['wall_s'] = time.time() - t0
    return res


def run_canary(unit, repo, outdir, meta):
    spec = os.path.join(VERIF, 'specs', unit + '.toml')
    gen = os.path.join(outdir, unit + '_canary.rs')
    with EXTRACT_LOCK:
        m2 = extract.extract_unit(spec, repo, gen, None, canary='*')
    r = run_verus(gen)
    if r['json'] is None:
        return {'canaries': 0, 'failed_as_expected': 0, 'vacuous': ['canary run did not execute: ' + r['stderr'][-300:]],
                'wall_s': r['wall']}
    text_lines = open(gen).read().split('\n')
    canary_lines = [i + 1 for i, l in enumerate(text_lines) if '// CANARY' in l]
    hit = set()
    for d in r['diags']:
        if d.get('level') == 'error' and 'assertion failed' in d.get('message', ''):
            for s in d.get('spans', []):
                if s.get('is_primary'):
                    hit.add(s['line_start'])
    missing = [l for l in canary_lines if l not in hit]
    annotate_gen_ranges(m2, '\n'.join(text_lines))
    vac = []
    for l in missing:
        vac.append('%s (canary line %d: %s)' % (fn_of_line(m2, l) or lemma_of_line(text_lines, l), l,
                                                text_lines[l - 1].strip()))
    # rlimit on a canary function means "not proven false" which is fine (not vacuous) only if
    # the canary assertion itself was reported; otherwise report it
    return {'canaries': len(canary_lines), 'failed_as_expected': len(canary_lines) - len(missing),
            'vacuous': vac, 'wall_s': r['wall']}


FIDELITY = {
    'V1': {'replay_cmd': ['fidelity-v1', '3'], 'bin_args': ['3']},
    'V5': {'replay_cmd': ['fidelity-v5'], 'bin_args': []},
    'V6': {'replay_cmd': ['fidelity-v6'], 'bin_args': []},
    # V10: the real parser supplies (document, span, message) of each error; the extracted
    # renderer reads them from a cases file
    'V10': {'replay_cmd': ['fidelity-v10'], 'bin_args': ['@CASES@'], 'cases_cmd': ['fidelity-v10-cases']},
}


def replay_bin():
    return os.path.join(VERIF, 'out', 'replay-target', 'debug', 'verif_replay')


_REPLAY_PURGED = [False]


def purge_replay():
    """the replay crate links the real crates by path: drop cargo's records of them (once per
    process) so that the binary is rebuilt from /repo's current content, not judged fresh by file time"""
    import glob
    import shutil
    if _REPLAY_PURGED[0]:
        return
    _REPLAY_PURGED[0] = True
    base = os.path.join(VERIF, 'out', 'replay-target', 'debug')
    # content-based freshness, as for the Kani builds (tools/kani_run.py: tree_digest)
    import kani_run
    digest = kani_run.tree_digest('/repo', extra_dirs=(os.path.join(VERIF, 'replay', 'src'), os.path.join(VERIF, 'specs', 'shared')))
    stamp = os.path.join(VERIF, 'out', 'replay-target', '.verif_tree_digest')
    try:
        if open(stamp).read().strip() == digest:
            return
    except OSError:
        pass
    os.makedirs(os.path.dirname(stamp), exist_ok=True)
    with open(stamp, 'w') as fh:
        fh.write(digest)
    for name in ('toml', 'toml_edit', 'toml_datetime', 'toml_write', 'serde_spanned', 'verif_replay'):
        for d in glob.glob(os.path.join(base, '.fingerprint', name + '-*')):
            shutil.rmtree(d, ignore_errors=True)


def build_replay(log=print):
    purge_replay()
    env = dict(os.environ, CARGO_NET_OFFLINE='true')
    rc, out, err, wall, to = sh(['cargo', 'build', '--offline', '--target-dir',
                                 os.path.join(VERIF, 'out', 'replay-target')], 1200,
                                cwd=os.path.join(VERIF, 'replay'), env=env)
    if rc != 0:
        log('replay build failed:\n' + err[-3000:])
        return False
    return True


def run_fidelity(unit, gen, outdir, log=print):
    if unit not in FIDELITY:
        return None
    cfg = FIDELITY[unit]
    binp = os.path.join(outdir, unit + '.bin')
    rc, out, err, wall, to = sh(['verus', gen, '--compile', '--no-verify', '-o', binp], 600, cwd=outdir)
    if rc != 0 or not os.path.exists(binp):
        return {'match': False, 'error': 'verus --compile failed: ' + err[-1500:]}
    if not build_replay(log):
        return {'match': False, 'error': 'replay crate did not build'}
    bin_args = list(cfg['bin_args'])
    if 'cases_cmd' in cfg:
        rc0, out0, err0, _, _ = sh([replay_bin()] + cfg['cases_cmd'], 600)
        if rc0 != 0 or not out0.strip():
            return {'match': False, 'error': 'replay produced no cases: ' + err0[-500:]}
        cases = os.path.join(outdir, unit + '.cases')
        open(cases, 'w').write(out0)
        bin_args = [cases if a == '@CASES@' else a for a in bin_args]
    rc1, out1, err1, _, _ = sh([binp] + bin_args, 600)
    rc2, out2, err2, _, _ = sh([replay_bin()] + cfg['replay_cmd'], 600)
    same = (rc1 == 0 and rc2 == 0 and out1 == out2)
    return {'match': same, 'extracted_digest': out1.strip().split('\n'), 'real_digest': out2.strip().split('\n'),
            'battery': out1.split('\n')[0] if out1 else ''}


if __name__ == '__main__':
    import argparse
    ap = argparse.ArgumentParser()
    ap.add_argument('unit')
    ap.add_argument('--repo', default='/repo')
    ap.add_argument('--no-fidelity', action='store_true')
    ap.add_argument('--no-canary', action='store_true')
    a = ap.parse_args()
    r = run_unit(a.unit, a.repo, fidelity=not a.no_fidelity, canary=not a.no_canary)
    slim = {k: v for k, v in r.items() if k not in ('obligations', 'rewrites', 'per_function', 'functions')}
    slim['n_obligations'] = len(r.get('obligations', []))
    slim['n_discharged'] = sum(1 for o in r.get('obligations', []) if o.get('discharged'))
    print(json.dumps(slim, indent=1)[:6000])
