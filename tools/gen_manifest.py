#!/usr/bin/env python3
"""Writes /verif/MANIFEST.json from tools/units.py (PLAN, UNITS) and the texts below."""
import json
import os
import subprocess
import sys

HERE = os.path.dirname(os.path.abspath(__file__))
VERIF = os.path.dirname(HERE)
sys.path.insert(0, HERE)
import units as U  # noqa: E402

CLAIM_TEXT = {
    'C10': ('Verus proves, for every &str and every quoting style, that toml_write::string::write_toml_value (extracted '
            'verbatim from /repo each run) emits a token of that style\'s TOML grammar that spec-decodes to the original '
            'bytes, that every style a builder offers satisfies the writer\'s precondition, and that a default exists for '
            'every string (unbounded). Kani proves the parser\'s byte-class tables equal the ABNF classes for all 256 bytes.',
            '4 V1, K1'),
    'C04': ('absence of overflow, out-of-bounds, bad str slicing, failed unwrap / unreachable and non-termination in every '
            'function under contract: Verus units unbounded (V1 string writer, V3 recursion counter, V4 slices, V5 '
            'Datetime::from_str, V6 date-time printer, V7 secfrac closure, V9 hex-escape closures, V10 Display for TomlError, '
            'V11 date-time assembly), Kani units for their stated fixed input widths (K8q/K8t: translate_position).', '4, 5 C04'),
    'C11': ('Kani, complete over the full machine domain: the float overflow guard (closure extracted from fn float each '
            'run) rejects both infinities and no finite value; u64/i128/u128 -> i64 conversions of every serializer/visitor '
            'and narrowing on input are exact or an error for every value. Verus (V8): every integer-literal base goes '
            'through the checked signed conversion (under an assumed from_str_radix contract); V12: a float literal is '
            'str::parse::<f64> of its text without underscores. f64/f32/bool pass both serializers and the visitors bit for bit '
            '(K6). K11f (bounded: representatives): nan / -nan / 0.0 / -0.0 of the f64 and f32 writers.', '4 K6 K7 V8 V12 K11f'),
    'C01': ('decided slices only: every byte class (complete), every 2-digit date/time field range and the calendar rule, '
            'hex-escape scalar range (thorough), float overflow guard with either sign, integer literals beyond i64 '
            'rejected in every base (V8, assumed from_str_radix), the one-letter escape table and hex-escape closures (V9), '
            'first-byte dispatch of values / newlines / document lines / keys = the ABNF alternatives (V3, V16). Bounded, never '
            'counted as proved: ws / newline / ws-newline / ws-newlines in situ take the longest run of their ABNF rule on every '
            '2-3 byte input (K9q quick, K9 thorough). Composition of the other productions is not decided.',
            '5 C01'),
    'C02': ('value of each 2/4-digit date-time field of the document grammar (per fixed width); fractional seconds '
            'truncated to nanoseconds for every digit string (V7, document grammar; V5, standalone parser); every field of '
            'the standalone parser for every string (V5); integer literal values (V8); float literal conversion (V12); escapes '
            '(V9; K5 in situ, thorough); date-time assembly (V11); CRLF -> LF, line-ending backslash, escapes in string values '
            '(V15); scalars on the tree -> serde step (K6t, K6d). '
            'Bounded: whitespace / newline runs swallowed after a line-ending backslash (K9q; K9 thorough: ws_newline, ws_newlines on 2-3 byte inputs).', '5 C02'),
    'C05': ('recursion counter contract (Verus, unbounded): limit <= 128, enter/exit balance, limit enforced exactly at the '
            'bound, dotted-key depth check, value() enters arrays and inline tables through check_recursion (dispatch table); '
            'Kani: check_recursion leaves the counter balanced.', '4 V3'),
    'C12': ('Verus, unbounded: Datetime::from_str accepts exactly the date-time grammar and yields its fields on EVERY '
            'string (V5); the printer emits, for every well-formed value, text the grammar accepts with that same value '
            '(V6), hence print-then-parse is the identity; calendar rule and range checks of both parsers (V4); document '
            'secfrac truncation (V7); assembly of the parsed parts in the document grammar (V11). Kani: the same standalone '
            'contract in situ per input width (K3), document-grammar field parsers (K2).', '4 V4 V5 V6 V7 V11 K2 K3'),
    'C14': ('serde span bridges (value -> Spanned<i64>, key -> Spanned<String>) deliver (start, end, value) unswapped for every '
            'span and value; apply_raw records exactly the span it is given on every kind of value (Kani, loop-free, complete); '
            'toml::de hands the parser exactly the caller\'s text (V14). Bounded, never counted as proved: RawString / despan on '
            '4-byte inputs and empty containers (K14r, K14d), table span bookkeeping for one plain key / one header (K14s).',
            '4 K11 K14 V14'),
    'C15': ('Display for TomlError never panics and prints line + 1 / column + 1 of the span start with the caret under that '
            'column, for every error value (Verus V10, unbounded, UNDER the contract of translate_position); '
            'translate_position == (line, char column) spec with clamping is itself only checked for every valid UTF-8 input up '
            'to the stated length (quick: 1-2 bytes, thorough: 1-4 bytes) and every index (Kani K8, bounded: the proof level covers the rendering, not the position). '
            'Deserialization errors: every map_err closure keeps an existing span, else attaches the value / key span, and '
            'adds the key to the path (Verus V13, unbounded).', '4 V10, V13, K8'),
}

NOTE = {
    'C10': 'assumed: fmt::Write for String appends; {:04X} prints 4 upper-case hex digits; Option::or_else and &str[range] '
           'contracts (assume_specification); parser implements the token grammar (tied at byte-class level only).',
    'C04': 'only functions under contract; document parser as a whole, Debug, Drop, serde are outside the claim.',
    'C11': 'assumed: str::parse::<f64> returns +-inf exactly on overflow; float printing not decided.',
    'C01': 'assumed: winnow combinators; composition of productions, cut_err placement, table-definition rules not decided.',
    'C02': 'floats rest on std dec2flt (named, trusted); combinator plumbing between the closures (which bytes a line-ending '
           'backslash swallows, quote runs next to the delimiter), key order, tree shape not decided.',
    'C05': 'stack consumption itself is not expressible; multiplicative nesting across constructs not decided.',
    'C12': 'assumed: contracts for Chars::{as_str, clone, nth}, u32::pow, char::is_ascii_digit, &str[range], {:0N} '
           'formatting, trim_end_matches, parse::<u32>; composition of the document grammar date_time production and the '
           'serde date-time tunnel not decided.',
    'C14': 'that the span handed to apply_raw is the value\'s text (with_span sites), dotted keys / arrays of tables in state.rs, '
           'child-inside-parent nesting and recursive despan are not decided; IndexMap RandomState stubbed in Kani.',
    'C15': 'translate_position: bounded input length (K8), its contract is assumed by V10; core::fmt effects of write!, usize '
           'Display, str::split/nth, [String]::join are assumed contracts; TomlError invariant (span ordered, inside the '
           'stored source) assumed of the constructors; message non-empty, span on character boundaries and the serde-side '
           'clauses are not decided.',
}

NOT_APPLICABLE = [
    ('C03', 'relates parse_document and Display for DocumentMut through spans stored in a recursive IndexMap tree replayed via &mut dyn fmt::Write; neither verifier can ingest it (Verus rejects the constructs, Kani probe on Table: 35 min / 9 GB, no verdict)'),
    ('C06', 'tree-level statement over Item/Table/IndexMap; its leaf obligations (strings/keys V1, integers, date-times) are reported under C10/C11/C12'),
    ('C07', 'quantifies over a family of derived types and the composition serializer -> printer -> parser -> deserializer through serde generics; the one function-level clause (u64 beyond i64 -> error) is K6 under C11'),
    ('C08', 'edit histories over IndexMap trees plus textual diffs of printed output: whole-history, no per-function contract carries it'),
    ('C09', 'state machine in parser/state.rs over &mut Table trees in IndexMap with re-borrowed &mut returned from loops; Verus would need assumed specs for the whole Table API, Kani cannot get through IndexMap'),
    ('C13', 'relational over serde implementations for arbitrary target types; the date-time serde tunnel prints and re-parses through core::fmt (CBMC: 36 GB, no verdict)'),
    ('C16', 'laws of IndexMap/BTreeMap/Vec (dependencies, would be assumed wholesale) composed with Item::None filtering in Box<dyn Iterator> chains; Verus rejects them, Kani does not terminate in budget'),
    ('C17', 'fixed point of parse-then-print over trees and map-order insensitivity across a cargo feature'),
    ('C18', 'quantifies over build configurations; a contract is checked in one configuration'),
    ('C19', 'macro_rules! expansion is outside both verifiers'),
    ('C20', 'mutual recursion between trait default methods and free functions over Item trees; no frame or view is expressible without modelling the tree'),
]


def main():
    repo_commits = subprocess.run(['git', '-C', '/repo', 'log', '--format=%h %s'], capture_output=True,
                                  text=True).stdout.strip().split('\n')
    hook_commits = [c.split()[0] for c in repo_commits if 'verif hook' in c or 'verification hook' in c]
    fix_commits = [c.split()[0] for c in repo_commits if c.split(' ', 1)[1].startswith('fix:')]
    checks = []
    claimed = sorted(U.PLAN.keys())
    for p in claimed:
        text, ref = CLAIM_TEXT[p]
        units_q = U.PLAN[p]['quick']
        units_t = U.PLAN[p]['thorough']
        bounded = [u for u in units_t if not U.UNITS[u].get('complete')]
        engines = sorted(set(U.UNITS[u]['engine'] for u in units_t))
        tech = 'contract-based deductive verification: ' + ' + '.join(
            {'verus': 'Verus (SMT, unbounded) on functions extracted mechanically from /repo',
             'kani': 'Kani/CBMC postcondition harnesses on the real crates (complete for the stated input width)'}[e]
            for e in engines)
        checks.append({
            'property_id': p,
            'quick_cmd': './check %s --tier quick' % p,
            'thorough_cmd': './check %s --tier thorough' % p,
            'evidence_file': '/verif/evidence/%s.json' % p,
            'replay_cmd_template': './check %s --replay {path}' % p,
            'engine': '+'.join(engines),
            'level_claimed': {
                'category': 'proof' if any(U.UNITS[u].get('complete') for u in units_t) else 'model_checking',
                'text': text + ' Units quick: %s; thorough: %s.%s' % (
                    ', '.join(units_q), ', '.join(units_t),
                    (' Bounded stand-ins (never counted as proved): ' + ', '.join(
                        '%s (%s)' % (u, U.UNITS[u].get('bound')) for u in bounded)) if bounded else ''),
                'design_ref': 'DESIGN.md section ' + ref,
            },
            'level_note': NOTE[p],
            'technique': tech,
        })
    na = [{'property_id': p, 'reason': r} for p, r in NOT_APPLICABLE if p not in claimed]
    listed = set(x['property_id'] for x in na) | set(claimed)
    for p in sorted(CLAIM_TEXT):
        if p not in listed:
            na.append({'property_id': p, 'reason': 'planned in DESIGN.md section 4 but its units are not built in this commit; not claimed until they are'})
    manifest = {
        'version': 1,
        'setup_cmd': './setup.sh',
        'hooks': {
            'guard': 'cfg(kani)',
            'enable': 'cargo kani sets cfg(kani); env TOML_VERIF_KANI=/verif/kani TOML_VERIF_GEN=/verif/out/kani-gen (exported by ./check)',
            'baseline_off_cmd': 'cd /repo && cargo test --workspace --no-fail-fast --offline',
            'source_commits': hook_commits + fix_commits,
            'add_only': True,
        },
        'engines': [
            {'name': 'V', 'path': 'tools/extract.py + tools/verus_run.py + specs/', 'serves_properties': sorted(
                p for p in claimed if any(U.UNITS[u]['engine'] == 'verus' for u in U.PLAN[p]['thorough'])),
             'kind_free_text': 'Verus 0.2026.09.13 on real functions extracted mechanically each run, contracts injected from specs/*.verus.rs'},
            {'name': 'K', 'path': 'tools/kani_run.py + kani/', 'serves_properties': sorted(
                p for p in claimed if any(U.UNITS[u]['engine'] == 'kani' for u in U.PLAN[p]['thorough'])),
             'kind_free_text': 'Kani 0.68 / CBMC 6.11 harnesses compiled into the real crates through cfg(kani) include! hooks'},
        ],
        'checks': checks,
        'not_applicable': na,
        'notes': 'hook commits: %s; fix commits: %s (each recorded in KNOWN_FINDINGS.txt as fixed:). Exit 2 of a check means '
                 'undecided for infrastructure reasons (lost anchor, unsupported construct, solver limit, vacuity guard), never a violation. '
                 'Known findings (genuine defects recorded, not repaired) are the `finding:` lines of KNOWN_FINDINGS.txt: currently one, '
                 'C05 / V3m (the two nesting budgets multiply, witness 79x40); the check prints KNOWN-FINDING for it and exits 0.'
                 % (', '.join(hook_commits), ', '.join(fix_commits)),
    }
    with open(os.path.join(VERIF, 'MANIFEST.json'), 'w') as f:
        json.dump(manifest, f, indent=1)
    print('MANIFEST.json: %d checks, %d not applicable' % (len(checks), len(na)))


if __name__ == '__main__':
    main()
