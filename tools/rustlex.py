"""Minimal Rust token scanner, sufficient for brace/paren matching and item location.

Tokens: (kind, text, start, end) with kind in
  ws, lcomment, bcomment, str, rawstr, char, lifetime, ident, num, punct
Positions are byte offsets into the (str) source; the repository sources are ASCII-safe for
offset purposes because we index the Python str, not bytes.
"""
import re

IDENT_RE = re.compile(r'[A-Za-z_][A-Za-z0-9_]*')
NUM_RE = re.compile(r'[0-9][0-9A-Za-z_]*(\.[0-9][0-9A-Za-z_]*)?')


class LexError(Exception):
    pass


def lex(src):
    toks = []
    i = 0
    n = len(src)
    while i < n:
        c = src[i]
        # whitespace
        if c.isspace():
            j = i + 1
            while j < n and src[j].isspace():
                j += 1
            toks.append(('ws', src[i:j], i, j))
            i = j
            continue
        # comments
        if src.startswith('//', i):
            j = src.find('\n', i)
            if j < 0:
                j = n
            toks.append(('lcomment', src[i:j], i, j))
            i = j
            continue
        if src.startswith('/*', i):
            depth = 1
            j = i + 2
            while j < n and depth:
                if src.startswith('/*', j):
                    depth += 1
                    j += 2
                elif src.startswith('*/', j):
                    depth -= 1
                    j += 2
                else:
                    j += 1
            if depth:
                raise LexError('unterminated block comment at %d' % i)
            toks.append(('bcomment', src[i:j], i, j))
            i = j
            continue
        # raw strings r"..." r#"..."# br#".."#
        m = re.match(r'(b|c)?r(#*)"', src[i:i + 40])
        if m:
            hashes = m.group(2)
            close = '"' + hashes
            j = src.find(close, i + m.end())
            if j < 0:
                raise LexError('unterminated raw string at %d' % i)
            j += len(close)
            toks.append(('rawstr', src[i:j], i, j))
            i = j
            continue
        # strings "..." b"..." c"..."
        if c == '"' or (c in 'bc' and i + 1 < n and src[i + 1] == '"'):
            j = i + (1 if c == '"' else 2)
            while j < n and src[j] != '"':
                if src[j] == '\\':
                    j += 2
                else:
                    j += 1
            if j >= n:
                raise LexError('unterminated string at %d' % i)
            j += 1
            toks.append(('str', src[i:j], i, j))
            i = j
            continue
        # char literal or lifetime; also b'x'
        if c == "'" or (c == 'b' and i + 1 < n and src[i + 1] == "'"):
            k = i + (1 if c == "'" else 2)
            # char literal forms: 'x'  '\n'  '\''  '\u{..}'  '\x7f'
            if k < n and src[k] == '\\':
                j = k + 2
                while j < n and src[j] != "'":
                    j += 1
                j += 1
                toks.append(('char', src[i:j], i, j))
                i = j
                continue
            if k + 1 < n and src[k + 1] == "'" and src[k] != "'":
                j = k + 2
                toks.append(('char', src[i:j], i, j))
                i = j
                continue
            if c == "'":
                m = IDENT_RE.match(src, k)
                if m:
                    toks.append(('lifetime', src[i:m.end()], i, m.end()))
                    i = m.end()
                    continue
            raise LexError('bad quote at %d: %r' % (i, src[i:i + 10]))
        m = IDENT_RE.match(src, i)
        if m:
            # raw identifiers r#ident
            toks.append(('ident', m.group(0), i, m.end()))
            i = m.end()
            continue
        m = NUM_RE.match(src, i)
        if m:
            toks.append(('num', m.group(0), i, m.end()))
            i = m.end()
            continue
        toks.append(('punct', c, i, i + 1))
        i += 1
    return toks


OPEN = {'(': ')', '[': ']', '{': '}'}
CLOSE = {v: k for k, v in OPEN.items()}


def significant(toks):
    """indices of tokens that are not whitespace/comments"""
    return [k for k, t in enumerate(toks) if t[0] not in ('ws', 'lcomment', 'bcomment')]


def match_close(toks, k):
    """toks[k] is an opening bracket punct; return index of its matching closer."""
    assert toks[k][0] == 'punct' and toks[k][1] in OPEN, toks[k]
    stack = []
    for j in range(k, len(toks)):
        kind, text = toks[j][0], toks[j][1]
        if kind != 'punct':
            continue
        if text in OPEN:
            stack.append(text)
        elif text in CLOSE:
            if not stack or stack[-1] != CLOSE[text]:
                raise LexError('mismatched %r at %d' % (text, toks[j][2]))
            stack.pop()
            if not stack:
                return j
    raise LexError('unclosed %r at %d' % (toks[k][1], toks[k][2]))
