#!/usr/bin/env python3
"""Engine K: run Kani harness sets on the real crates in /repo (in place, cfg(kani) hooks),
parse results into named obligations.  See DESIGN.md 2.2."""
import json
import os
import re
import resource
import signal
import subprocess
import sys
import time

HERE = os.path.dirname(os.path.abspath(__file__))
VERIF = os.path.dirname(HERE)
KANI_DIR = os.path.join(VERIF, 'kani')
GEN_DIR = os.path.join(VERIF, 'out', 'kani-gen')
TARGET_DIR = os.path.join(VERIF, 'out', 'kani-target')


def target_dir(repo):
    """One cargo-kani target directory per checked tree.  A scratch worktree must never share the
    directory of /repo: cargo-kani resolves a harness to the most recently generated goto file of
    that crate, so after a run on a (patched) worktree a run on /repo -- which cargo rightly
    considers fresh and does not rebuild -- analysed the worktree's code (observed: a seeded
    defect of the worktree reported as a failure on the unchanged /repo)."""
    repo = os.path.realpath(repo)
    if repo == '/repo':
        return TARGET_DIR
    return TARGET_DIR + '-' + re.sub(r'[^A-Za-z0-9]+', '_', repo).strip('_')
MEM_LIMIT = 24 * 1024 ** 3
# cargo features per crate (toml_edit's de/ser modules exist only with `serde`)
FEATURES = {'toml_edit': ['serde']}
# cargo package spec per crate (`toml` alone is ambiguous: toml 0.5 is in the lock file too)
PKGSPEC = {}


def pkgspec(crate, repo='/repo'):
    if crate != 'toml':
        return crate
    try:
        txt = open(os.path.join(repo, 'crates', 'toml', 'Cargo.toml')).read()
        m = re.search(r'(?m)^version\s*=\s*"([^"]+)"', txt)
        return 'toml@' + m.group(1)
    except Exception:
        return crate


def _limits():
    os.setsid()
    try:
        resource.setrlimit(resource.RLIMIT_AS, (MEM_LIMIT, MEM_LIMIT))
    except (ValueError, OSError):
        pass


def sh(cmd, timeout, cwd=None, env=None, limit_mem=True):
    t0 = time.time()
    p = subprocess.Popen(cmd, stdout=subprocess.PIPE, stderr=subprocess.STDOUT, cwd=cwd, env=env,
                         preexec_fn=_limits if limit_mem else os.setsid, text=True)
    try:
        out, _ = p.communicate(timeout=timeout)
        return p.returncode, out, time.time() - t0, False
    except subprocess.TimeoutExpired:
        try:
            os.killpg(p.pid, signal.SIGKILL)
        except ProcessLookupError:
            pass
        out, _ = p.communicate()
        return -9, out, time.time() - t0, True


def kani_env():
    env = dict(os.environ)
    env.update({'TOML_VERIF_KANI': KANI_DIR, 'TOML_VERIF_GEN': GEN_DIR, 'CARGO_NET_OFFLINE': 'true'})
    return env


# --------------------------------------------------------------------------------------
# mechanical extraction for generated harness inputs (K7)


def gen_k7(repo):
    """closure passed to `.verify(` inside fn float of parser/numbers.rs, verbatim"""
    sys.path.insert(0, HERE)
    import extract
    os.makedirs(GEN_DIR, exist_ok=True)
    rel = 'crates/toml_edit/src/parser/numbers.rs'
    src = extract.Source(os.path.join(repo, rel))
    s_start, s_kw, s_open, s_close = extract.locate(src, 'fn', 'float')
    body = src.text[src.tok(s_open)[2]:src.tok(s_close)[3]]
    base = src.tok(s_open)[2]
    ms = list(re.finditer(r'\.verify\(', body))
    if len(ms) != 1:
        raise extract.LostAnchor('K7: expected exactly one `.verify(` in fn float, found %d' % len(ms))
    # matching close paren
    i = ms[0].end()
    depth = 1
    j = i
    while depth:
        c = body[j]
        if c == '(':
            depth += 1
        elif c == ')':
            depth -= 1
        j += 1
    closure = body[i:j - 1].strip()
    if not closure.startswith('|'):
        raise extract.LostAnchor('K7: argument of .verify( is not a closure: %r' % closure[:60])
    line = src.line_of(base + i)
    text = ('// GENERATED from %s line %d: the closure passed to `.verify(` in fn float, verbatim\n'
            'fn k7_guard() -> impl Fn(&f64) -> bool {\n    %s\n}\n' % (rel, line, closure))
    with open(os.path.join(GEN_DIR, 'k7_float_guard.rs'), 'w') as f:
        f.write(text)
    return {'file': rel, 'line': line, 'closure': closure}


def gen_k10(repo):
    """closures passed to `.try_map(` after hex_int / oct_int / bin_int in fn integer, verbatim"""
    sys.path.insert(0, HERE)
    import extract
    os.makedirs(GEN_DIR, exist_ok=True)
    rel = 'crates/toml_edit/src/parser/numbers.rs'
    src = extract.Source(os.path.join(repo, rel))
    s_start, s_kw, s_open, s_close = extract.locate(src, 'fn', 'integer')
    body = src.text[src.tok(s_open)[2]:src.tok(s_close)[3]]
    base = src.tok(s_open)[2]
    out = ['// GENERATED from %s fn integer: the closures passed to `.try_map(`, verbatim\n' % rel]
    notes = {}
    for name in ('hex_int', 'oct_int', 'bin_int'):
        ms = list(re.finditer(r'\b%s\.try_map\(' % name, body))
        if len(ms) != 1:
            raise extract.LostAnchor('K10: expected exactly one `%s.try_map(` in fn integer, found %d' % (name, len(ms)))
        i = ms[0].end()
        depth = 1
        j = i
        while depth:
            c = body[j]
            if c == '(':
                depth += 1
            elif c == ')':
                depth -= 1
            elif c == '"':
                j = body.index('"', j + 1)
            elif c == "'" and body[j + 2] == "'":
                j += 2
            j += 1
        closure = body[i:j - 1].strip()
        if not closure.startswith('|'):
            raise extract.LostAnchor('K10: argument of %s.try_map( is not a closure: %r' % (name, closure[:60]))
        out.append('fn k10_%s_conv() -> impl Fn(&str) -> Result<i64, core::num::ParseIntError> {\n    %s\n}\n' % (name, closure))
        notes[name] = {'file': rel, 'line': src.line_of(base + i), 'closure': closure}
    with open(os.path.join(GEN_DIR, 'k10_int_closures.rs'), 'w') as f:
        f.write(''.join(out))
    return notes


WORKSPACE_CRATES = ('toml', 'toml_edit', 'toml_datetime', 'toml_write', 'serde_spanned')


def force_rebuild(repo):
    """Checks must rebuild from the tree's current content, not from whatever cargo considers fresh
    by file time: the build records of the workspace crates (not of the dependencies) are removed
    from this tree's Kani target directory, so the next cargo-kani invocation compiles them again.
    Call once per check run, before any cargo-kani process is started."""
    import glob
    import shutil
    td = target_dir(repo)
    # freshness is judged by CONTENT: a digest of every source file of the workspace crates and of
    # the harness files is kept in the target directory; the build records are dropped whenever it
    # differs from the digest of the last build (cargo itself only looks at file times)
    digest = tree_digest(repo)
    stamp = os.path.join(td, '.verif_tree_digest')
    try:
        if open(stamp).read().strip() == digest:
            return 0
    except OSError:
        pass
    os.makedirs(td, exist_ok=True)
    with open(stamp, 'w') as fh:
        fh.write(digest)
    n = 0
    for crate in WORKSPACE_CRATES:
        for d in glob.glob(os.path.join(td, 'kani', '*', 'debug', 'build', crate)) + \
                glob.glob(os.path.join(td, 'kani', '*', 'debug', 'incremental', crate + '-*')):
            shutil.rmtree(d, ignore_errors=True)
            n += 1
    return n


def tree_digest(repo, extra_dirs=()):
    """sha256 over the content of the workspace's Rust sources and manifests and of the harness files"""
    import hashlib
    h = hashlib.sha256()
    roots = [os.path.join(repo, 'crates'), os.path.join(repo, 'Cargo.toml'), os.path.join(repo, 'Cargo.lock'), KANI_DIR]
    roots += list(extra_dirs)
    files = []
    for r in roots:
        if os.path.isfile(r):
            files.append(r)
            continue
        for dp, dn, fn in os.walk(r):
            dn[:] = [d for d in dn if d not in ('target', '.git')]
            for f in fn:
                if f.endswith(('.rs', '.toml', '.lock')):
                    files.append(os.path.join(dp, f))
    for f in sorted(files):
        h.update(f.encode())
        try:
            with open(f, 'rb') as fh:
                h.update(hashlib.sha256(fh.read()).digest())
        except OSError:
            h.update(b'?')
    return h.hexdigest()


def ensure_gen(repo):
    """every generated include must exist for the crate to compile under cfg(kani)"""
    notes = {}
    notes['k7'] = gen_k7(repo)
    notes['k10'] = gen_k10(repo)
    return notes


# --------------------------------------------------------------------------------------


def run_harnesses(crate, harnesses, repo='/repo', jobs=8, harness_timeout=600, total_timeout=None,
                  extra_args=(), log=print):
    """-> dict harness -> result.  harnesses: exact harness function names (last path segment)."""
    os.makedirs(target_dir(repo), exist_ok=True)
    export = os.path.join(VERIF, 'out', 'kani-export-%s-%d.json' % (crate, os.getpid()))
    if os.path.exists(export):
        os.remove(export)
    cmd = ['cargo', 'kani', '-p', pkgspec(crate, repo), '--target-dir', target_dir(repo), '-j', str(jobs),
           '--output-format', 'terse', '-Z', 'function-contracts', '-Z', 'stubbing',
           '-Z', 'unstable-options', '--harness-timeout', '%ds' % harness_timeout,
           '--export-json', export]
    if FEATURES.get(crate):
        cmd += ['--features', ','.join(FEATURES[crate])]
    for h in harnesses:
        cmd += ['--harness', h]
    cmd += list(extra_args)
    total_timeout = total_timeout or (harness_timeout * (1 + len(harnesses) // max(1, jobs)) + 600)
    rc, out, wall, timed_out = sh(cmd, total_timeout, cwd=repo, env=kani_env())
    logdir = os.path.join(VERIF, 'out', 'kani-logs')
    os.makedirs(logdir, exist_ok=True)
    with open(os.path.join(logdir, '%s-%d.log' % (crate, os.getpid())), 'w') as lf:
        lf.write(' '.join(cmd) + '\n' + out)
    results = {}
    raw = {'cmd': ' '.join(cmd), 'rc': rc, 'wall_s': wall, 'timed_out': timed_out, 'tail': out[-6000:]}
    js = None
    if os.path.exists(export):
        try:
            js = json.load(open(export))
        except ValueError:
            js = None
        os.replace(export, os.path.join(logdir, 'last-export-%s-%d.json' % (crate, os.getpid())))
    build_failed = ('error: could not compile' in out) or ('error[E' in out and js is None)
    raw['build_failed'] = build_failed
    by_short = {}
    if js:
        meta = {m['pretty_name']: m for m in js.get('harness_metadata', [])}
        stats = {c['harness_id']: (c.get('cbmc_stats') or {}) for c in js.get('cbmc', [])}
        for r in (js.get('verification_results') or {}).get('results') or []:
            if not r or not r.get('harness_id'):
                continue
            hid = r['harness_id']
            short = hid.split('::')[-1]
            checks = r.get('checks') or []
            failed = [c for c in checks if c['status'] in ('Failure', 'FAILURE', 'Failed')]
            undet = [c for c in checks if c['status'] in ('Undetermined', 'UNDETERMINED', 'Unreachable_undetermined')]
            covers = [c for c in checks if c.get('category') == 'cover']
            uncovered = [c for c in covers if c['status'] not in ('Satisfied', 'SATISFIED')]
            unwind_fail = [c for c in failed if c.get('category') == 'unwind']
            asserts = [c for c in checks if c.get('category') not in ('cover',)]
            by_short[short] = {
                'harness': hid, 'status': r.get('status') or 'unknown', 'duration_s': r.get('duration_ms', 0) / 1000.0,
                'n_checks': len(asserts), 'n_failed': len(failed),
                'failed': [{'category': c.get('category'), 'description': c['description'],
                            'function': c.get('function'),
                            'location': '%s:%s' % ((c.get('location') or {}).get('file'), (c.get('location') or {}).get('line'))}
                           for c in failed[:20]],
                'undetermined': len(undet),
                'covers': len(covers), 'uncovered': [c['description'] for c in uncovered],
                'unwind_failures': len(unwind_fail),
                'solver_s': (stats.get(hid) or {}).get('runtime_decision_procedure_s'),
                'symex_s': (stats.get(hid) or {}).get('runtime_symex_s'),
                'source': meta.get(hid, {}).get('source'),
            }
    # harnesses missing from the export: timed out / crashed / not found
    for h in harnesses:
        if h in by_short:
            results[h] = by_short[h]
        else:
            # look at the text output
            st = 'missing'
            if re.search(r'%s.*(timed out|TIMEOUT|Timeout)' % re.escape(h), out) or timed_out:
                st = 'timeout'
            elif build_failed:
                st = 'build-failed'
            elif re.search(r'(out of memory|std::bad_alloc|SIGKILL|signal: 9)', out):
                st = 'oom'
            results[h] = {'harness': h, 'status': st, 'n_checks': 0, 'n_failed': 0, 'failed': [],
                          'covers': 0, 'uncovered': [], 'unwind_failures': 0, 'duration_s': None}
    return results, raw


def concrete_playback(crate, harness, repo='/repo', timeout=900):
    """re-run one failing harness with concrete playback; returns list of byte vectors"""
    cmd = ['cargo', 'kani', '-p', pkgspec(crate, repo), '--target-dir', target_dir(repo), '--harness', harness, '--exact'
           if False else '--harness', harness,
           '--output-format', 'terse', '-Z', 'function-contracts', '-Z', 'stubbing',
           '-Z', 'concrete-playback', '--concrete-playback=print']
    if FEATURES.get(crate):
        cmd += ['--features', ','.join(FEATURES[crate])]
    rc, out, wall, to = sh(cmd, timeout, cwd=repo, env=kani_env())
    vecs = []
    m = re.search(r'let concrete_vals: Vec<Vec<u8>> = vec!\[(.*?)\n\s*\];', out, re.S)
    if m:
        for vm in re.finditer(r'vec!\[([0-9,\s]*)\]', m.group(1)):
            nums = [int(x) for x in vm.group(1).replace('\n', ' ').split(',') if x.strip()]
            vecs.append(nums)
    return vecs, out[-3000:]


def verdict(res):
    """pass / fail / undecided for one harness result"""
    st = res['status']
    if st in ('timeout', 'oom', 'missing', 'build-failed'):
        return 'undecided'
    if res.get('unwind_failures'):
        return 'undecided'      # unwinding bound too small: infrastructure, never a violation
    if res['n_failed']:
        return 'fail'
    if res.get('uncovered'):
        return 'undecided'      # vacuity guard
    if res.get('undetermined'):
        return 'undecided'
    if st in ('Success', 'SUCCESS', 'Successful'):
        return 'pass'
    return 'undecided'


def warm(repo='/repo'):
    """compile the hooked crates for Kani once (codegen only) so that later checks start fast"""
    ensure_gen(repo)
    for crate in ('toml_edit', 'toml_datetime', 'toml', 'toml_write'):
        cmd = ['cargo', 'kani', '-p', pkgspec(crate, repo), '--target-dir', target_dir(repo), '--only-codegen',
               '-Z', 'function-contracts', '-Z', 'stubbing']
        if FEATURES.get(crate):
            cmd += ['--features', ','.join(FEATURES[crate])]
        rc, out, wall, to = sh(cmd, 1800, cwd=repo, env=kani_env())
        print('warm %s rc=%s %.0fs' % (crate, rc, wall))


if __name__ == '__main__':
    if '--warm' in sys.argv:
        warm()
        sys.exit(0)
    import argparse
    ap = argparse.ArgumentParser()
    ap.add_argument('crate')
    ap.add_argument('harness', nargs='+')
    ap.add_argument('--repo', default='/repo')
    ap.add_argument('-j', type=int, default=8)
    ap.add_argument('--timeout', type=int, default=600)
    a = ap.parse_args()
    print(json.dumps(ensure_gen(a.repo), indent=1))
    res, raw = run_harnesses(a.crate, a.harness, a.repo, a.j, a.timeout)
    for h, r in res.items():
        print(h, verdict(r), r['status'], r.get('duration_s'), 'checks', r['n_checks'], 'failed', r['n_failed'],
              'covers', r['covers'], 'uncovered', r['uncovered'])
        for f in r['failed'][:5]:
            print('    ', f)
    if raw['build_failed'] or raw['rc'] not in (0, 1):
        print(raw['tail'])
