#!/usr/bin/env python3
"""Runs the registered checks against every seeded change in /verif/seeded/<id>/:
   git -C /repo apply patch.diff ; ./check <property> --tier <tier> ; git -C /repo checkout -- .
Records exit code, VIOLATION / UNDECIDED lines and failed obligations in seeded/<id>/meta.json
(key detected_by) and prints a table.  /repo must be clean (committed) before running.

usage: run_seeds.py [--tier quick|thorough] [seed ids...]
"""
import json
import os
import re
import subprocess
import sys
import time

VERIF = os.path.dirname(os.path.dirname(os.path.abspath(__file__)))
sys.path.insert(0, os.path.join(VERIF, 'tools'))
import units as U  # noqa: E402


def main():
    args = sys.argv[1:]
    tier = 'quick'
    if '--tier' in args:
        i = args.index('--tier')
        tier = args[i + 1]
        del args[i:i + 2]
    repo = '/repo'
    if '--repo' in args:      # a scratch worktree of /repo's HEAD (checks then run with VERIF_REPO=<path>)
        i = args.index('--repo')
        repo = args[i + 1]
        del args[i:i + 2]
    ids = args or sorted(x for x in os.listdir(os.path.join(VERIF, 'seeded')) if not x.startswith('_'))
    st = subprocess.run(['git', '-C', repo, 'status', '--porcelain'], capture_output=True, text=True).stdout
    if st.strip():
        print('refusing: %s has uncommitted changes:\n' % repo + st)
        return 2
    rows = []
    for sid in ids:
        d = os.path.join(VERIF, 'seeded', sid)
        meta = json.load(open(os.path.join(d, 'meta.json')))
        prop = meta['breaks_property']
        if prop not in U.PLAN:
            rows.append((sid, prop, '-', 'property not claimed'))
            meta['detected_by'] = {'tier': tier, 'result': 'property not claimed'}
            json.dump(meta, open(os.path.join(d, 'meta.json'), 'w'), indent=1)
            continue
        r = subprocess.run(['git', '-C', repo, 'apply', os.path.join(d, 'patch.diff')], capture_output=True, text=True)
        if r.returncode != 0:
            rows.append((sid, prop, '-', 'patch does not apply: ' + r.stderr[:100]))
            continue
        t0 = time.time()
        try:
            p = subprocess.run([os.path.join(VERIF, 'check'), prop, '--tier', tier], capture_output=True, text=True,
                               cwd=VERIF, timeout=14400, env=dict(os.environ, VERIF_REPO=repo))
            out = p.stdout + p.stderr
            rc = p.returncode
        finally:
            subprocess.run(['git', '-C', repo, 'checkout', '--', '.'])
            subprocess.run(['git', '-C', repo, 'clean', '-fdq', '-e', 'target'])
        failed = re.findall(r'FAILED obligation (\S+)', out)
        viol = [l for l in out.splitlines() if l.startswith('VIOLATION')]
        und = [l for l in out.splitlines() if l.startswith('UNDECIDED') or 'UNDECIDED:' in l]
        verdict = {0: 'MISSED (exit 0)', 1: 'DETECTED', 2: 'undecided (exit 2)'}.get(rc, 'rc %d' % rc)
        rows.append((sid, prop, '%.0fs' % (time.time() - t0), verdict + ' ' + ', '.join(failed[:3])))
        meta['detected_by'] = {'tier': tier, 'exit': rc, 'verdict': verdict, 'failed_obligations': failed[:10],
                               'violation_lines': viol[:5], 'undecided': und[:3], 'wall_s': round(time.time() - t0)}
        json.dump(meta, open(os.path.join(d, 'meta.json'), 'w'), indent=1)
        print('%-8s %-4s %-6s %s' % rows[-1], flush=True)
    print()
    for r in rows:
        print('%-8s %-4s %-6s %s' % r)
    return 0


if __name__ == '__main__':
    sys.exit(main())
