#!/bin/sh
# Run once after a fresh restore (offline): builds the replay crate against /repo and warms
# the Kani build of the hooked crates.  Every check rebuilds what it needs from /repo anyway.
set -e
cd "$(dirname "$0")"
mkdir -p out/kani-gen out/replay
export CARGO_NET_OFFLINE=true
(cd replay && cargo build --offline --target-dir ../out/replay-target 2>&1 | tail -3)
python3 tools/kani_run.py --warm || true
echo setup done
